"""C17 - Renames inside access rules and conditions are exact."""

LEVEL = 'exploration'
RULE = ('seeded documents with two user tables sharing column ids (name, city, Email in both; columns literally called rec and '
        'choice), 8 ACL resources with column lists, 2 user-attribute rules (Att -> Schools.Email, Own -> Students.name), 16 '
        'access-rule formulas, 9 dropdown conditions (Ref, RefList and non-reference columns of both tables; three stored '
        'unparsed through AddColumn) and 7 trigger conditions (plain text, JSON text, config.customExpression, text with a '
        'supplied parsed form). Formulas come from a grammar over the predicate subset that puts current column ids and '
        'look-alikes (X2, x, X_, other case) into every entity position (rec.X, $X, newRec.X, oldRec.X, choice.X, user.Att.X, '
        'user.Own.X, user.Nope.X, user.X, other.X, chains rec.ref.X, bare names, strings, comments incl. non-ASCII, multi-line '
        'parenthesised forms, method calls, keyword arguments), plus texts the predicate parser refuses. Then 45 (quick) / 170 '
        '(thorough) column renames per document by RenameColumn, ModifyColumn label, UpdateRecord / BulkUpdateRecord of colId / '
        'label with plain, to-be-sanitised, colliding and entity-like targets (rec, choice, user, newRec, Att); every third step '
        'a quarter of the formulas is replaced by fresh ones over the current ids. A case = one rename action, after which '
        'every holder is judged; non-trivial = some formula, resource or user attribute mentions a renamed column in a position '
        'that must follow; distinct by (path, kinds of holders rewritten, entity positions rewritten).')
ASSUMPTIONS = ['what "parses" means is taken from the engine\'s exported parse_predicate_formula (C40 owns the parser); the expected '
               'tree is computed by props/C17_lib.py with Python\'s ast from the statement\'s rule',
               'positions the statement names only for another kind of holder (oldRec in access rules, newRec in trigger and '
               'dropdown conditions, user.Attr.X outside access rules, rec.X of rules on resource *, chains like rec.ref.X) accept '
               'the old or the new id; choice.X of a non-reference column must stay (upstream test_dropdown_condition_renames)',
               'the stored parsed form is compared with the engine\'s own parse of the stored text',
               'texts that are no Python at all are only placed in the shards about the open finding '
               'unparsable_condition_blocks_renames (every rename of such a document fails); only column renames are applied']
REQUIRED = {'renames_nontrivial': {'quick': 300, 'thorough': 3500}, 'formulas_checked': {'quick': 12000, 'thorough': 150000},
            'entity_positions_required': {'quick': 400, 'thorough': 5000}, 'parsed_form_checks': {'quick': 10000, 'thorough': 120000},
            'unparsable_checked': {'quick': 300, 'thorough': 4000}, 'resources_checked': {'quick': 3000, 'thorough': 40000},
            'user_attributes_checked': {'quick': 700, 'thorough': 9000}, 'witness_runs': {'quick': 1, 'thorough': 1}}
SHARD_TIMEOUT = {'quick': 600, 'thorough': 3000}


def plan(tier, seed):
  from props import C17_run
  return C17_run.plan(tier, seed)


def run_shard(spec, acc):
  from props import C17_run
  return C17_run.run_shard(spec, acc)
