"""C34 - Time zone conversions round-trip.

Pure-function check of moment.py (ts_to_dt / dt_to_ts / date_to_ts / ts_to_date, Zone._index,
Zone._index_dt, TzInfo.fromutc) over every zone of the bundled tzdata.data. The oracle reads the raw
zone arrays itself (marshal) and only ever scans them linearly.
"""
import os
import random
import marshal
from datetime import datetime, date, timedelta

LEVEL = 'exploration'
RULE = ('every bundled zone; instants = every transition of the zone +/- a set of deltas (0, 1 s, 1 h, 1 d, ...) plus seeded '
        'samples over 1800-2200 (integers, half seconds, arbitrary floats) and over the years 1000-3000; local datetimes = the '
        'wall-clock values just before/at/after both edges of every gap or overlap, its middle, +/-1 h and +/-1 d, plus seeded '
        'samples; dates = every day 1800-01-01..2200-12-31 without zone (exhaustive, split over the shards), and with a zone '
        'the days around each transition plus samples. A case is one conversion round trip or one offset assignment; '
        'non-trivial = the instant lies within 1 h of a transition of its zone / the local time lies within 1 h of a gap or '
        'overlap / the date is within a day of a transition; distinct by (zone, kind, value).')
ASSUMPTIONS = [
  'supported range explored: years 1000..3000 (datetime arithmetic overflows near years 1 and 9999)',
  'the zone arrays mean: offsets[i] (minutes west of UTC) applies to instants t with untils[i-1] <= t < untils[i] (the '
  'moment-timezone data format)',
  'integer and half-second timestamps must round-trip to within 1 microsecond (timedelta resolution), arbitrary floats to '
  'within 2 microseconds; offsets are compared with 1 ms tolerance (zone offsets differ from each other by whole seconds)',
  '"an offset the zone uses around that instant" = the offset of any period that intersects [L - 1 day, L + 1 day], L read as UTC',
  'the date clause with a zone is read as: ts_to_dt(date_to_ts(d, zone), zone).date() == d; dates that no instant of the '
  'zone has (a whole day skipped at a date-line change, e.g. Pacific/Apia 2011-12-30) are not constrained and are skipped',
]
REQUIRED = {'roundtrips_ts': {'quick': 300000, 'thorough': 4000000},
            'local_offset_checks': {'quick': 400000, 'thorough': 2500000},
            'date_roundtrips_utc': {'quick': 140000, 'thorough': 140000},
            'date_roundtrips_zone': {'quick': 120000, 'thorough': 700000},
            'zones_checked': {'quick': 500, 'thorough': 500}}
SHARD_TIMEOUT = {'quick': 240, 'thorough': 1500}

EPOCH = datetime(1970, 1, 1)
DATE_EPOCH = date(1970, 1, 1)
KNOWN_DATE_MECH = 'date_midnight_uses_offset_at_utc_midnight'

TIERS = {
  'quick': {'shards': 16, 'deltas': [0, -1, 1, -3600, 3600, -86400, 86400], 'samples': 120, 'local_samples': 60,
            'date_samples': 40, 'date_span': 1},
  'thorough': {'shards': 32,
               'deltas': [0, -0.5, 0.5, -1, 1, -59, 59, -60, 60, -1800, 1800, -3599, 3599, -3600, 3600, -3601, 3601, -7200,
                          7200, -43200, 43200, -86399, 86399, -86400, 86400, -86401, 86401, -7 * 86400, 7 * 86400],
               'samples': 6000, 'local_samples': 4000, 'date_samples': 1000, 'date_span': 3},
}


def plan(tier, seed):
  n = TIERS[tier]['shards']
  return [{'witness': 'date_midnight'}] + [{'part': i, 'parts': n, 'hseed': seed * 100003 + i} for i in range(n)]


# ---------------------------------------------------------------------------------------------
# Reference side: linear scans over the raw arrays

def lin_index(untils, t_ms):
  for i, u in enumerate(untils):
    if t_ms < u:
      return i
  return len(untils) - 1


def offsets_in_window(offsets, untils, lo_ms, hi_ms):
  """East-positive offsets in seconds of all periods that intersect [lo_ms, hi_ms]."""
  out = []
  prev = float('-inf')
  for off, u in zip(offsets, untils):
    if prev <= hi_ms and u > lo_ms:
      out.append(-off * 60.0)
    prev = u
    if u > hi_ms:
      break
  return out


def date_exists(offsets, untils, day_number):
  """Whether any instant has this local calendar date (a jump over the date line skips a whole day)."""
  lo = day_number * 86400000.0
  hi = lo + 86400000.0
  prev = float('-inf')
  for off, u in zip(offsets, untils):
    if prev - off * 60000.0 < hi and u - off * 60000.0 > lo:
      return True
    prev = u
  return False


def near(x, values, tol):
  return any(abs(x - v) <= tol for v in values)


def to_dt(x):
  """Naive datetime for x seconds since the epoch (rounded to microseconds)."""
  return EPOCH + timedelta(seconds=x)


def dt_seconds(dt):
  """Exact microsecond count of a naive datetime since the epoch, as seconds."""
  return ((dt - EPOCH) // timedelta(microseconds=1)) / 1e6


def key(zi, kind, value):
  return (zi << 50) | (kind << 46) | ((int(round(value * 1000)) + (1 << 45)) & ((1 << 46) - 1))


YEAR_S = 365.2425 * 86400
T1800, T2200 = int(-170 * YEAR_S), int(230 * YEAR_S)
T1000, T3000 = int(-970 * YEAR_S) + 86400 * 400, int(1030 * YEAR_S) - 86400 * 400


# ---------------------------------------------------------------------------------------------

class ZoneCheck(object):
  def __init__(self, acc, moment, zi, rec, cfg, rnd):
    self.acc, self.m, self.zi, self.cfg, self.rnd = acc, moment, zi, cfg, rnd
    self.name, self.abbrs, self.offsets, self.untils = rec
    self.zone = moment.get_zone(self.name)
    self.tzinfo = moment.tzinfo(self.name)
    self.trans = [u / 1000.0 for u in self.untils[:-1]]

  # -- clause 1 --------------------------------------------------------------------------------
  def roundtrip(self, ts, nontrivial, tol=1e-6):
    m = self.m
    dt = m.ts_to_dt(ts, self.zone)
    back = m.dt_to_ts(dt)
    self.acc.count('roundtrips_ts')
    if not abs(back - ts) <= tol:
      self.acc.violation('ts_roundtrip', '%s: dt_to_ts(ts_to_dt(%r)) = %r (local %s, utcoffset %s)'
                         % (self.name, ts, back, dt.replace(tzinfo=None).isoformat(' '), dt.utcoffset()),
                         {'zone': self.name, 'ts': ts, 'back': back, 'utc': to_dt(ts).isoformat(' ')})
    self.acc.case(key(self.zi, 0, ts) if nontrivial else None,
                  {'zone': self.name, 'ts': ts, 'local': dt.isoformat(' '), 'back': back} if nontrivial else None)
    return dt

  def produced_offset(self, ts, dt):
    """The aware datetime that ts_to_dt produced must carry an offset the zone uses around ts."""
    allowed = offsets_in_window(self.offsets, self.untils, (ts - 86400) * 1000, (ts + 86400) * 1000)
    off = dt.utcoffset().total_seconds()
    self.acc.count('produced_offset_checks')
    if not near(off, allowed, 1e-3):
      self.acc.violation('produced_offset_not_in_zone', '%s: ts_to_dt(%r) carries utcoffset %s s; the zone uses %s within a day'
                         % (self.name, ts, off, sorted(set(allowed))), {'zone': self.name, 'ts': ts})

  # -- clause 3 --------------------------------------------------------------------------------
  def local_offset(self, x, nontrivial):
    """x = wall-clock value in seconds (as if UTC). Naive and aware paths of dt_to_ts."""
    m = self.m
    L = to_dt(x)
    xs = dt_seconds(L)
    allowed = offsets_in_window(self.offsets, self.untils, (xs - 86400) * 1000, (xs + 86400) * 1000)
    ts_naive = m.dt_to_ts(L, self.zone)
    ts_aware = m.dt_to_ts(L.replace(tzinfo=self.tzinfo))
    direct = self.zone.dt_offset(L).total_seconds()
    self.acc.count('local_offset_checks')
    for how, off in (('dt_to_ts(naive, zone)', xs - ts_naive), ('dt_to_ts(aware)', xs - ts_aware),
                     ('Zone.dt_offset', direct)):
      if not near(off, allowed, 1e-3):
        self.acc.violation('local_offset_not_in_zone', '%s: local %s is assigned offset %r s by %s; offsets in use within a '
                           'day: %s' % (self.name, L.isoformat(' '), off, how, sorted(set(allowed))),
                           {'zone': self.name, 'local': L.isoformat(' '), 'how': how})
        break
    self.acc.case(key(self.zi, 1, xs) if nontrivial else None, None)

  # -- clause 2 with a zone ----------------------------------------------------------------------
  def date_zone(self, d, nontrivial):
    m = self.m
    if not date_exists(self.offsets, self.untils, (d - DATE_EPOCH).days):
      self.acc.count('dates_skipped_nonexistent_in_zone')      # no instant has this date: nothing to demand
      return
    ts = m.date_to_ts(d, self.zone)
    back = m.ts_to_dt(ts, self.zone)
    self.acc.count('date_roundtrips_zone')
    if back.date() != d:
      utc_mid = (d - DATE_EPOCH).days * 86400
      o1 = self.offsets[lin_index(self.untils, utc_mid * 1000.0)]
      o2 = self.offsets[lin_index(self.untils, ts * 1000.0)]
      # Known mechanism: date_to_ts subtracts the offset in force at the UTC midnight of the date,
      # not the one in force at the local midnight; it shows only when a transition lies between.
      mech = KNOWN_DATE_MECH if o1 != o2 else 'date_roundtrip_zone'
      self.acc.count('date_zone_mismatches')
      self.acc.count('date_zone_mismatches.' + mech)
      # the shard keeps only its first 12 violation records: report the known mechanism twice per
      # shard (all are counted) so that it cannot crowd out a violation of another kind
      if mech != KNOWN_DATE_MECH or self.acc.counters['date_zone_mismatches.' + mech] <= 2:
        self.acc.violation(mech, '%s: date_to_ts(%s, zone) = %r, which is %s local time' %
                           (self.name, d.isoformat(), ts, back.replace(tzinfo=None).isoformat(' ')),
                           {'zone': self.name, 'date': d.isoformat(), 'ts': ts})
    self.acc.case(key(self.zi, 2, (d - DATE_EPOCH).days) if nontrivial else None, None)

  # -- workload ----------------------------------------------------------------------------------
  def run(self):
    rnd, cfg = self.rnd, self.cfg
    offs = self.offsets
    for i, u in enumerate(self.trans):
      for delta in cfg['deltas']:
        ts = u + delta
        dt = self.roundtrip(ts, abs(delta) <= 3600)
        if abs(delta) <= 1:
          self.produced_offset(ts, dt)
      # wall-clock values around the gap / overlap of this transition
      a, b = u - offs[i] * 60.0, u - offs[i + 1] * 60.0
      lo, hi = min(a, b), max(a, b)
      for x in (lo - 86400, lo - 3600, lo - 1, lo, lo + 1, (lo + hi) / 2.0, hi - 1, hi, hi + 1, hi + 3600, hi + 86400):
        self.local_offset(x, lo - 3600 <= x <= hi + 3600)
      if a != b:
        self.acc.count('gaps' if b > a else 'overlaps')
      d0 = DATE_EPOCH + timedelta(days=int(u // 86400))
      for dd in range(-cfg['date_span'], cfg['date_span'] + 1):
        self.date_zone(d0 + timedelta(days=dd), True)
    for _ in range(cfg['samples']):
      r = rnd.random()
      if r < 0.7:
        self.roundtrip(rnd.randint(T1800, T2200), False)
      elif r < 0.8:
        self.roundtrip(rnd.randint(T1800, T2200) + 0.5, False)
      elif r < 0.9:
        self.roundtrip(rnd.uniform(T1800, T2200), False, tol=2e-6)
      else:
        self.roundtrip(rnd.randint(T1000, T3000), False)
    for _ in range(cfg['local_samples']):
      self.local_offset(rnd.randint(T1800, T2200) if rnd.random() < 0.9 else rnd.randint(T1000, T3000), False)
    for _ in range(cfg['date_samples']):
      self.date_zone(DATE_EPOCH + timedelta(days=rnd.randint(T1800 // 86400, T2200 // 86400)), False)
    self.acc.count('zones_checked')
    self.acc.count('transitions_checked', len(self.trans))


def load_raw(moment):
  path = os.path.join(os.path.dirname(os.path.abspath(moment.__file__)), 'tzdata.data')
  with open(path, 'rb') as f:
    return marshal.load(f)


def witness_date_midnight(acc, moment):
  """Open finding: date_to_ts(date, zone) subtracts the offset in force at 00:00 UTC of that date. Egypt
  went to summer time at local midnight of 1940-07-15 (22:00 UTC the day before), so the 'midnight' of
  1940-07-15 comes out as 23:00 on 1940-07-14."""
  acc.count('witness_runs')
  z = moment.get_zone('Africa/Cairo')
  d = date(1940, 7, 15)
  ts = moment.date_to_ts(d, z)
  back = moment.ts_to_dt(ts, z)
  if back.date() != d:
    acc.violation(KNOWN_DATE_MECH, 'witness: date_to_ts(1940-07-15, Africa/Cairo) = %r, which is %s local time'
                  % (ts, back.replace(tzinfo=None).isoformat(' ')), {'ts': ts})


def run_shard(spec, acc):
  import moment      # the repository module under test
  if spec.get('witness'):
    return witness_date_midnight(acc, moment)
  cfg = TIERS[spec['tier']]
  raw = sorted(load_raw(moment), key=lambda r: r[0])
  if set(r[0] for r in raw) != set(moment.get_tz_data()):
    acc.inconclusive.append('zone names read from tzdata.data differ from moment.get_tz_data()')
    return
  rnd = random.Random(spec['hseed'])
  for zi, rec in enumerate(raw):
    if zi % spec['parts'] != spec['part']:
      continue
    name, abbrs, offsets, untils = rec
    if not (len(abbrs) == len(offsets) == len(untils) and untils[-1] == float('inf') and
            all(x < y for x, y in zip(untils, untils[1:]))):
      acc.inconclusive.append('unexpected shape of the raw record of zone %s' % name)
      continue
    ZoneCheck(acc, moment, zi, rec, cfg, rnd).run()
  # clause 2 without a zone: every day 1800-01-01 .. 2200-12-31, split over the shards
  d_lo, d_hi = (date(1800, 1, 1) - DATE_EPOCH).days, (date(2200, 12, 31) - DATE_EPOCH).days
  for n in range(d_lo + spec['part'], d_hi + 1, spec['parts']):
    d = DATE_EPOCH + timedelta(days=n)
    ts = moment.date_to_ts(d)
    back = moment.ts_to_date(ts)
    acc.count('date_roundtrips_utc')
    if back != d or ts != n * 86400:
      acc.violation('date_roundtrip_utc', 'ts_to_date(date_to_ts(%s)) = %s (timestamp %r)' % (d, back, ts), {'date': str(d)})
    acc.case(None, None)
