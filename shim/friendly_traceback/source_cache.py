import linecache

class _Cache(object):
  def add(self, filename, source):
    lines = [line + "\n" for line in source.splitlines()]
    linecache.cache[filename] = (len(source), None, lines, filename)

cache = _Cache()
