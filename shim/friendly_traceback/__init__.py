"""Stand-in for the `friendly_traceback` package, which /venv lacks (see DESIGN.md section 2).
Only `source_cache.cache.add` is needed by codebuilder.save_to_linecache."""
