"""
Independent doc-action interpreter (C02 oracle): applies stored doc actions the way Node applies
them to its tables. Deliberately does not use the repository's TableDataSet (code under test).
Missing cells get the Node-side type default (app/common/gristTypes.ts _defaultValues).
"""
from vlib.snapshot import norm

INF = float('inf')
DEFAULTS = {'Any': None, 'Attachments': None, 'Blob': None, 'Bool': False, 'Choice': '',
            'ChoiceList': None, 'Date': None, 'DateTime': None, 'Id': 0, 'Int': 0,
            'ManualSortPos': INF, 'Numeric': 0, 'PositionNumber': INF, 'Ref': 0,
            'RefList': None, 'Text': ''}


def tdefault(t):
  return DEFAULTS.get(t.split(':')[0])


class ShadowError(Exception):
  pass


class Shadow(object):
  def __init__(self):
    self.t = {}   # table -> {'rows': set, 'cols': {col: {rowid: val}}, 'types': {col: type}}
    self.kinds = {}

  def apply(self, a):
    name = a[0]
    self.kinds[name] = self.kinds.get(name, 0) + 1
    fn = getattr(self, 'do_' + name, None)
    if fn is None:
      raise ShadowError('unknown doc action %r' % (name,))
    fn(*a[1:])

  def _tab(self, tid):
    if tid not in self.t:
      raise ShadowError('action on unknown table %r' % (tid,))
    return self.t[tid]

  def do_AddTable(self, tid, cols):
    if tid in self.t:
      raise ShadowError('AddTable of existing table %r' % (tid,))
    self.t[tid] = {'rows': set(), 'cols': {c['id']: {} for c in cols},
                   'types': {c['id']: c['type'] for c in cols}}

  def do_RemoveTable(self, tid):
    self._tab(tid)
    del self.t[tid]

  def do_RenameTable(self, a, b):
    self._tab(a)
    if b in self.t:
      raise ShadowError('RenameTable onto existing table %r' % (b,))
    self.t[b] = self.t.pop(a)

  def do_AddColumn(self, tid, cid, info):
    T = self._tab(tid)
    if cid in T['cols']:
      raise ShadowError('AddColumn of existing column %s.%s' % (tid, cid))
    T['cols'][cid] = {r: tdefault(info['type']) for r in T['rows']}
    T['types'][cid] = info['type']

  def do_RemoveColumn(self, tid, cid):
    T = self._tab(tid)
    if cid not in T['cols']:
      raise ShadowError('RemoveColumn of unknown column %s.%s' % (tid, cid))
    del T['cols'][cid]
    del T['types'][cid]

  def do_RenameColumn(self, tid, a, b):
    T = self._tab(tid)
    if a not in T['cols'] or b in T['cols']:
      raise ShadowError('RenameColumn %s.%s -> %s impossible' % (tid, a, b))
    T['cols'][b] = T['cols'].pop(a)
    T['types'][b] = T['types'].pop(a)

  def do_ModifyColumn(self, tid, cid, info):
    T = self._tab(tid)
    if cid not in T['cols']:
      raise ShadowError('ModifyColumn of unknown column %s.%s' % (tid, cid))
    if 'type' in info:
      T['types'][cid] = info['type']

  def do_AddRecord(self, tid, r, vals):
    self.do_BulkAddRecord(tid, [r], {k: [v] for k, v in vals.items()})

  def do_BulkAddRecord(self, tid, rows, vals):
    T = self._tab(tid)
    for c in vals:
      if c not in T['cols']:
        raise ShadowError('BulkAddRecord with unknown column %s.%s' % (tid, c))
      if len(vals[c]) != len(rows):
        raise ShadowError('malformed BulkAddRecord: %d values of %s.%s for %d rows' % (len(vals[c]), tid, c, len(rows)))
    for i, r in enumerate(rows):
      if r in T['rows']:
        raise ShadowError('BulkAddRecord of existing row %s[%s]' % (tid, r))
      T['rows'].add(r)
      for c in T['cols']:
        T['cols'][c][r] = vals[c][i] if c in vals else tdefault(T['types'][c])

  def do_ReplaceTableData(self, tid, rows, vals):
    T = self._tab(tid)
    T['rows'] = set()
    for c in T['cols']:
      T['cols'][c] = {}
    self.do_BulkAddRecord(tid, rows, vals)

  def do_RemoveRecord(self, tid, r):
    self.do_BulkRemoveRecord(tid, [r])

  def do_BulkRemoveRecord(self, tid, rows):
    T = self._tab(tid)
    for r in rows:
      if r in T['rows']:
        T['rows'].discard(r)
        for c in T['cols']:
          T['cols'][c].pop(r, None)

  def do_UpdateRecord(self, tid, r, vals):
    self.do_BulkUpdateRecord(tid, [r], {k: [v] for k, v in vals.items()})

  def do_BulkUpdateRecord(self, tid, rows, vals):
    T = self._tab(tid)
    for c, vs in vals.items():
      if c not in T['cols']:
        raise ShadowError('BulkUpdateRecord with unknown column %s.%s' % (tid, c))
      if len(vs) != len(rows):
        raise ShadowError('malformed BulkUpdateRecord: %d values of %s.%s for %d rows' % (len(vs), tid, c, len(rows)))
      for r, v in zip(rows, vs):
        if r not in T['rows']:
          raise ShadowError('BulkUpdateRecord of unknown row %s[%s]' % (tid, r))
        T['cols'][c][r] = v

  def resync(self, raw_snapshot, types):
    """Re-seed from the engine (used after a reported divergence so later ones are independent)."""
    self.t = {}
    for tid, rep in raw_snapshot.items():
      _, _, row_ids, cols = rep
      self.t[tid] = {'rows': set(row_ids), 'types': dict(types.get(tid, {})),
                     'cols': {c: dict(zip(row_ids, vals)) for c, vals in cols.items()}}
      for c in cols:
        self.t[tid]['types'].setdefault(c, 'Any')

  def snapshot(self):
    out = {}
    for tid, T in self.t.items():
      rows = sorted(T['rows'])
      out[tid] = (rows, {c: [norm(m[r]) for r in rows] for c, m in T['cols'].items()})
    return out
