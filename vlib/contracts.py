"""
Counting contracts wrapped around the repository's real functions (DESIGN.md 3.4, kind 4).

Each contract is a named post-condition function that *records* a violation and returns; it never
raises into the code it observes. Every wrapper counts its evaluations so that a check can tell
"held on N evaluations" from "never reached" (inconclusive).

The wrappers are installed inside the engine process (worker.py) and also by the direct drivers of
the pure-function properties (C20, C21, C22, C24, C36, C37), so the same oracle judges hostile
direct inputs and every in-situ call made during engine workloads.

Which contracts are installed is chosen with VERIF_CONTRACTS (comma list of property ids, or 'all').
"""
import os
import sys
import math
import marshal

COUNTS = {}
VIOLATIONS = []
MAX_VIOLATIONS = 50
_enabled = None


def enabled(pid):
  global _enabled
  if _enabled is None:
    v = os.environ.get('VERIF_CONTRACTS', '')
    _enabled = set(x for x in v.split(',') if x)
  return 'all' in _enabled or pid in _enabled


def count(name, n=1):
  COUNTS[name] = COUNTS.get(name, 0) + n


def violation(pid, name, detail):
  if len(VIOLATIONS) < MAX_VIOLATIONS:
    VIOLATIONS.append({'property': pid, 'contract': name, 'detail': detail})


def drain():
  global VIOLATIONS
  out = {'counts': dict(COUNTS), 'violations': VIOLATIONS}
  VIOLATIONS = []
  return out


def safe_repr(v, limit=300):
  try:
    r = repr(v)
  except Exception as e:      # pylint: disable=broad-except
    r = '<repr failed: %s>' % type(e).__name__
  return r[:limit]


# ----------------------------------------------------------------------------------------------
# C24: objtypes.encode_object
ALLOWED_MARSHAL_CODES = None

def plain_ok(v, depth=0):
  """True iff v is built only from exact None/bool/int32/float/str/list/dict-with-str-keys."""
  t = type(v)
  if v is None or t is bool or t is float or t is str:
    return True
  if t is int:
    return -2**31 <= v < 2**31
  if depth > 200:
    return False
  if t is list:
    return all(plain_ok(x, depth + 1) for x in v)
  if t is dict:
    return all(type(k) is str and plain_ok(x, depth + 1) for k, x in v.items())
  return False


def same_encoded(a, b):
  """Structural equality of encoded values, NaN-aware, type-exact for bool."""
  ta, tb = type(a), type(b)
  if ta is float and tb is float:
    return a == b or (math.isnan(a) and math.isnan(b))
  if ta is bool or tb is bool:
    return ta is tb and a == b
  if ta in (int, float) and tb in (int, float):
    return a == b
  if ta is not tb:
    return False
  if ta is list:
    return len(a) == len(b) and all(same_encoded(x, y) for x, y in zip(a, b))
  if ta is dict:
    return set(a) == set(b) and all(same_encoded(a[k], b[k]) for k in a)
  return a == b


def check_encoded(objtypes, value, result, where):
  """The C24 post-condition for one encode_object result."""
  count('C24.encode_object')
  if not plain_ok(result):
    violation('C24', 'encode_object.plain', {'where': where, 'value': safe_repr(value),
                                            'result': safe_repr(result)})
    return
  try:
    marshal.dumps(result, 2)
  except Exception as e:      # pylint: disable=broad-except
    violation('C24', 'encode_object.marshal', {'where': where, 'value': safe_repr(value),
                                              'error': type(e).__name__})
    return
  try:
    back = objtypes.encode_object(objtypes.decode_object(result), _verif_nested=True) \
        if False else _orig['encode_object'](objtypes.decode_object(result))
  except Exception as e:      # pylint: disable=broad-except
    violation('C24', 'encode_object.roundtrip_raises', {'where': where, 'value': safe_repr(value),
              'result': safe_repr(result), 'error': type(e).__name__})
    return
  if not same_encoded(back, result):
    violation('C24', 'encode_object.roundtrip', {'where': where, 'value': safe_repr(value),
              'result': safe_repr(result), 'back': safe_repr(back)})


_orig = {}
_depth = [0]

def _wrap_encode_object(objtypes):
  orig = objtypes.encode_object
  _orig['encode_object'] = orig
  def encode_object(value):
    # Only judge top-level calls (encode_object recurses through the module global).
    _depth[0] += 1
    try:
      result = orig(value)
    finally:
      _depth[0] -= 1
    if _depth[0] == 0:
      _depth[0] += 1
      try:
        check_encoded(objtypes, value, result, 'in-situ')
      finally:
        _depth[0] -= 1
    return result
  encode_object.__wrapped__ = orig
  objtypes.encode_object = encode_object


# ----------------------------------------------------------------------------------------------
# C22: BaseColumnType.convert
def strict_same(a, b):
  if type(a) is not type(b):
    return False
  if isinstance(a, float):
    return a == b or (math.isnan(a) and math.isnan(b))
  if isinstance(a, (list, tuple)):
    return len(a) == len(b) and all(strict_same(x, y) for x, y in zip(a, b))
  try:
    return bool(a == b)
  except Exception:      # pylint: disable=broad-except
    return a is b


def _wrap_convert(usertypes, objtypes):
  base = usertypes.BaseColumnType
  orig = base.convert
  _orig['convert'] = orig
  guard = [0]
  def convert(self, value_to_convert):
    if guard[0]:
      return orig(self, value_to_convert)
    guard[0] += 1
    try:
      tname = type(self).__name__
      count('C22.convert')
      count('C22.convert.' + tname)
      try:
        result = orig(self, value_to_convert)
      except Exception as e:      # pylint: disable=broad-except
        violation('C22', 'convert.raises', {'type': tname, 'value': safe_repr(value_to_convert),
                                            'error': type(e).__name__, 'mech': 'raises:' + tname})
        raise
      check_converted(self, objtypes, value_to_convert, result, orig, 'in-situ')
      return result
    finally:
      guard[0] -= 1
  convert.__wrapped__ = orig
  base.convert = convert


def check_converted(typ, objtypes, value, result, orig_convert, where):
  tname = type(typ).__name__
  ok_type = False
  try:
    ok_type = typ.is_right_type(result)
  except Exception:      # pylint: disable=broad-except
    ok_type = False
  if not ok_type:
    if isinstance(result, objtypes.RaisedException) and result is value:
      pass
    elif isinstance(result, str):
      pass
    elif isinstance(result, objtypes.RaisedException) and isinstance(value, objtypes.RaisedException):
      pass
    else:
      violation('C22', 'convert.result_type', {'type': tname, 'value': safe_repr(value),
                'result': safe_repr(result), 'where': where, 'mech': 'result_type:' + tname})
      return
  try:
    again = orig_convert(typ, result)
  except Exception as e:      # pylint: disable=broad-except
    violation('C22', 'convert.idempotent_raises', {'type': tname, 'value': safe_repr(value),
              'result': safe_repr(result), 'error': type(e).__name__, 'where': where,
              'mech': 'idempotent_raises:' + tname})
    return
  if not strict_same(again, result):
    violation('C22', 'convert.idempotent', {'type': tname, 'value': safe_repr(value),
              'result': safe_repr(result), 'again': safe_repr(again), 'where': where,
              'mech': 'idempotent:%s:%s->%s' % (tname, safe_repr(result, 40), safe_repr(again, 40))})


# ----------------------------------------------------------------------------------------------
# C20: relabeling.prepare_inserts
def check_prepare_inserts(existing, keys, result, where):
  """
  existing: list of (key, value) pairs in sorted order before the call.
  keys: requested positions. result: (adjustments, new_keys)
  """
  count('C20.prepare_inserts')
  adjustments, new_keys = result
  detail = {'where': where, 'existing': safe_repr([k for k, _ in existing], 400),
            'keys': safe_repr(list(keys), 300)}
  if len(new_keys) != len(keys):
    violation('C20', 'prepare_inserts.len', dict(detail, new=safe_repr(new_keys)))
    return
  adj = {}
  for item in adjustments:
    index, newkey = item
    adj[index] = newkey
  final_existing = []
  for i, (k, ident) in enumerate(existing):
    final_existing.append(adj.get(i, k))
  allpos = list(final_existing) + list(new_keys)
  for p in allpos:
    if not isinstance(p, (int, float)) or isinstance(p, bool) or math.isnan(p) or math.isinf(p):
      violation('C20', 'prepare_inserts.finite', dict(detail, pos=safe_repr(p), mech='nonfinite'))
      return
  if len(set(allpos)) != len(allpos):
    violation('C20', 'prepare_inserts.distinct', dict(detail, final=safe_repr(final_existing, 400),
              new=safe_repr(new_keys), mech='duplicate'))
    return
  # existing keep their relative order (stable for ties in old keys: sorted list order)
  for a, b in zip(final_existing, final_existing[1:]):
    if not a < b:
      violation('C20', 'prepare_inserts.order_existing', dict(detail, final=safe_repr(final_existing, 400),
                mech='existing_order'))
      return
  # placement of each new key
  for req, nk in zip(keys, new_keys):
    for (oldk, ident), fk in zip(existing, final_existing):
      if oldk < req and not fk < nk:
        violation('C20', 'prepare_inserts.place_after', dict(detail, req=safe_repr(req), new=safe_repr(nk),
                  final=safe_repr(final_existing, 400), mech='placement'))
        return
      if oldk >= req and not nk < fk:
        violation('C20', 'prepare_inserts.place_before', dict(detail, req=safe_repr(req), new=safe_repr(nk),
                  final=safe_repr(final_existing, 400), mech='placement'))
        return
  # new keys ordered like their requests (stable)
  order = sorted(range(len(keys)), key=lambda i: (keys[i], i))
  seq = [new_keys[i] for i in order]
  for a, b in zip(seq, seq[1:]):
    if not a < b:
      violation('C20', 'prepare_inserts.order_new', dict(detail, new=safe_repr(new_keys), mech='new_order'))
      return


def _wrap_prepare_inserts(relabeling):
  orig = relabeling.prepare_inserts
  _orig['prepare_inserts'] = orig
  def prepare_inserts(sortedlist, keys, *a, **kw):
    try:
      before = [(sortedlist._key(v) if hasattr(sortedlist, '_key') else sortedlist.key(v), v)
                for v in sortedlist]
    except Exception:      # pylint: disable=broad-except
      before = None
    keys = list(keys)
    result = orig(sortedlist, keys, *a, **kw)
    if before is not None:
      try:
        check_prepare_inserts(before, keys, result, 'in-situ')
      except Exception as e:      # pylint: disable=broad-except
        violation('C20', 'prepare_inserts.monitor_error', {'error': repr(e)})
    return result
  prepare_inserts.__wrapped__ = orig
  relabeling.prepare_inserts = prepare_inserts


# ----------------------------------------------------------------------------------------------
# C21: identifiers.pick_*
import re as _re
import keyword as _keyword
_IDENT = _re.compile(r'^[A-Za-z][A-Za-z0-9_]*\Z')     # \Z, not $: '$' also matches before a trailing newline

def valid_ident(s, table=False, strict=False):
  """The property's notion of a valid id (strict=True: plain-ASCII form, used for 'kept as is')."""
  if not isinstance(s, str) or not s or _keyword.iskeyword(s):
    return False
  if strict:
    if not _IDENT.match(s):
      return False
  elif not s.isidentifier() or s[0] == '_' or s[0].isdigit():
    return False
  if table and not s[0].isupper():
    return False
  return True


def check_pick(kind, requested, avoid, result, where):
  count('C21.' + kind)
  table = (kind == 'pick_table_ident')
  detail = {'where': where, 'kind': kind, 'requested': safe_repr(requested),
            'avoid': safe_repr(sorted(avoid, key=str), 300), 'result': safe_repr(result)}
  results = result if kind == 'pick_col_ident_list' else [result]
  reqs = requested if kind == 'pick_col_ident_list' else [requested]
  up = set()
  for a in avoid:
    if isinstance(a, str):
      up.add(a.upper())
  seen = set()
  for req, res in zip(reqs, results):
    if not valid_ident(res, table):
      violation('C21', kind + '.valid', dict(detail, mech='invalid'))
      return
    if res.upper() in up:
      violation('C21', kind + '.avoid', dict(detail, mech='collides_avoid'))
      return
    if res.upper() in seen:
      violation('C21', kind + '.batch', dict(detail, mech='collides_batch'))
      return
    if isinstance(req, str) and valid_ident(req, table, strict=True) and req.upper() not in up \
        and req.upper() not in seen and res != req:
      violation('C21', kind + '.kept', dict(detail, mech='not_kept'))
      return
    seen.add(res.upper())


def _wrap_identifiers(identifiers):
  for kind in ('pick_table_ident', 'pick_col_ident', 'pick_col_ident_list'):
    orig = getattr(identifiers, kind)
    _orig[kind] = orig
    def mk(kind, orig):
      def wrapper(ident, avoid=set(), *a, **kw):
        avoid_copy = set(avoid)
        req = list(ident) if kind == 'pick_col_ident_list' else ident
        result = orig(ident, *a, avoid=avoid, **kw)
        try:
          check_pick(kind, req, avoid_copy, result, 'in-situ')
        except Exception as e:      # pylint: disable=broad-except
          violation('C21', kind + '.monitor_error', {'error': repr(e)})
        return result
      wrapper.__wrapped__ = orig
      return wrapper
    setattr(identifiers, kind, mk(kind, orig))


# ----------------------------------------------------------------------------------------------
def install_early():
  """Wrap module-level functions that other modules import by name (before they are imported)."""
  if enabled('C24'):
    import objtypes
    _wrap_encode_object(objtypes)
  if enabled('C20'):
    import relabeling
    _wrap_prepare_inserts(relabeling)
  if enabled('C21'):
    import identifiers
    _wrap_identifiers(identifiers)


def install_late():
  if enabled('C22'):
    import usertypes
    import objtypes
    _wrap_convert(usertypes, objtypes)
