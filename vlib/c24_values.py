"""
C24: seeded generator of hostile Python values, as *source text*.

The same text is (a) executed in the shard process and handed to the real objtypes.encode_object,
and (b) used as the body of a formula evaluated by a real engine process, so that one catalogue
serves the direct contract and the transport monitor.

build(R, ...) -> Case(blocks, stmts, expr, tags): `blocks` are the names of PRELUDE blocks the text
needs (class definitions and imports), `stmts` set-up statements, `expr` the value expression.
body(case) is the formula body / function body.

Atoms marked as *triggers* reproduce listed (open) findings; the main streams run without them, a
separate trigger stream and the witnesses run with them (DESIGN.md 3.6).
"""
import re

# ----------------------------------------------------------------------------------------------
# Prelude blocks: name -> source. A block is included when its name occurs in the case text.
PRELUDE = {
  'datetime': 'import datetime',
  'enum': 'import enum',
  'collections': 'import collections',
  'decimal': 'import decimal',
  'fractions': 'import fractions',
  'array': 'import array',
  'objtypes': 'import objtypes',
  'moment': 'import moment',
  'S': 'class S(str):\n  pass',
  'SSelf': 'class SSelf(str):\n  def __str__(self):\n    return self',
  'SRepr': "class SRepr(str):\n  def __repr__(self):\n    return 'SRepr!'",
  'SBadStr': "class SBadStr(str):\n  def __str__(self):\n    raise ValueError('no str')",
  'SEq': 'class SEq(str):\n  def __eq__(self, other):\n    return True\n  def __hash__(self):\n    return 7',
  'I': 'class I(int):\n  pass',
  'IRepr': "class IRepr(int):\n  def __repr__(self):\n    return 'IRepr!'\n  __str__ = __repr__",
  'ICmp': "class ICmp(int):\n  def __lt__(self, other):\n    raise TypeError('no order')\n  __le__ = __gt__ = __ge__ = __lt__",
  'F': 'class F(float):\n  pass',
  'FSelf': 'class FSelf(float):\n  def __float__(self):\n    return self',
  'B': 'class B(bytes):\n  pass',
  'L': 'class L(list):\n  pass',
  'T2': 'class T2(tuple):\n  pass',
  'D': 'class D(dict):\n  pass',
  'NT': "NT = collections.namedtuple('NT', 'a b')",
  'IE': 'class IE(enum.IntEnum):\n  A = 1\n  BIG = 2 ** 40',
  'SE': "class SE(enum.StrEnum):\n  A = 'a'\n  B = 'b'",
  'SE2': "class SE2(str, enum.Enum):\n  A = 'a'",
  'Fl': 'class Fl(enum.Flag):\n  A = 1\n  B = 2',
  'En': "class En(enum.Enum):\n  A = 'x'\n  B = (1, 2)",
  'BadRepr': "class BadRepr(object):\n  def __repr__(self):\n    raise ValueError('no repr')",
  'BadEq': "class BadEq(object):\n  def __eq__(self, other):\n    raise ValueError('no eq')\n  def __hash__(self):\n    return 1",
  'EqAll': 'class EqAll(object):\n  def __eq__(self, other):\n    return True\n  def __hash__(self):\n    return 1',
  'Liar': 'class Liar(object):\n  @property\n  def __class__(self):\n    return str',
  'LiarD': 'class LiarD(object):\n  @property\n  def __class__(self):\n    return dict',
  'LiarI': 'class LiarI(object):\n  @property\n  def __class__(self):\n    return int',
  'BadExc': "class BadExc(Exception):\n  def __str__(self):\n    raise ValueError('no str')",
  'XExc': "class XExc(Exception):\n  pass",
  'DateSub': 'class DateSub(datetime.date):\n  pass',
  'DTSub': 'class DTSub(datetime.datetime):\n  pass',
  'TZ5': "class TZ5(datetime.tzinfo):\n  def utcoffset(self, dt):\n    return datetime.timedelta(hours=5, minutes=30)\n"
         "  def dst(self, dt):\n    return None\n  def tzname(self, dt):\n    return 'TZ5'",
}
# blocks that need another block first
NEEDS = {'NT': ['collections'], 'IE': ['enum'], 'SE': ['enum'], 'SE2': ['enum'], 'Fl': ['enum'], 'En': ['enum'],
         'DateSub': ['datetime'], 'DTSub': ['datetime'], 'TZ5': ['datetime']}

ZONES = ['UTC', 'America/New_York', 'Asia/Kolkata', 'Australia/Lord_Howe', 'Europe/London', 'Pacific/Kiritimati', 'Etc/GMT+12',
         'Asia/Tokyo', 'America/St_Johns']

# ----------------------------------------------------------------------------------------------
# Atoms: (category, expression). Categories drive the structural hash and the evidence.
ATOMS = [
  ('prim', 'None'), ('prim', 'True'), ('prim', 'False'), ('prim', '0'), ('prim', '1'), ('prim', '-1'), ('prim', '2**31 - 1'),
  ('prim', '-2**31'), ('prim', '1.5'), ('prim', "float('nan')"), ('prim', "float('inf')"), ('prim', "-float('inf')"), ('prim', '-0.0'),
  ('prim', "''"), ('prim', "'a'"), ('prim', "'\\xe9\\u2603'"), ('prim', "'\\ud800'"), ('prim', "'a\\x00b'"), ('prim', "'x' * 3000"),
  ('prim', "'L'"), ('prim', '1e308 * 10'),
  ('bigint', '2**31'), ('bigint', '-2**31 - 1'), ('bigint', '2**63'), ('bigint', '-2**63 - 1'), ('bigint', '2**70'), ('bigint', '-10**30'),
  ('bigint', '10**400'), ('bigint', '10**5000'),
  ('str_sub', "S('a')"), ('str_sub', "SRepr('a')"), ('str_sub', "SBadStr('a')"), ('str_sub', "SEq('a')"), ('str_sub', "S('')"),
  ('int_sub', 'I(5)'), ('int_sub', 'I(2**40)'), ('int_sub', 'IRepr(7)'), ('int_sub', 'IRepr(2**40)'), ('int_sub', 'ICmp(3)'),
  ('float_sub', 'F(1.5)'), ('float_sub', "F('nan')"), ('float_sub', 'FSelf(2.5)'),
  ('bytes', "b'ab'"), ('bytes', "b''"), ('bytes', "b'\\xff\\xfe'"), ('bytes', "'\\xe9'.encode('utf8')"), ('bytes_sub', "B(b'ab')"),
  ('bytes_sub', "B(b'\\xff')"), ('bytes', "bytearray(b'ab')"), ('bytes', "memoryview(b'ab')"),
  ('enum', 'IE.A'), ('enum', 'IE.BIG'), ('enum', 'SE.A'), ('enum', 'SE2.A'), ('enum', 'Fl.A | Fl.B'), ('enum', 'En.A'), ('enum', 'En.B'),
  ('seq_sub', 'L([1, 2])'), ('seq_sub', 'T2((1, 2))'), ('seq_sub', 'NT(1, 2)'), ('seq_sub', "NT(a='x', b=None)"),
  ('dict_sub', "D({'a': 1})"), ('dict_sub', 'collections.OrderedDict(a=1, b=2)'), ('dict_sub', 'collections.defaultdict(int, a=1)'),
  ('dict_sub', "collections.Counter('aab')"), ('dict_sub', 'collections.Counter([1, 1, 2])'),
  ('number', "decimal.Decimal('1.5')"), ('number', 'fractions.Fraction(1, 3)'), ('number', '1j'), ('number', 'complex(1, 2)'),
  ('set', '{1, 2}'), ('set', 'set()'), ('set', 'frozenset({1})'), ('set', "{'a'}"),
  ('odd', '...'), ('odd', 'NotImplemented'), ('odd', 'int'), ('odd', 'len'), ('odd', '(lambda: 1)'), ('odd', '(i for i in [])'),
  ('odd', 'object()'), ('odd', 'range(3)'), ('odd', "array.array('i', [1, 2])"), ('odd', 'BadRepr()'), ('odd', 'BadEq()'), ('odd', 'EqAll()'),
  ('odd', 'Liar()'), ('odd', 'LiarD()'), ('odd', 'LiarI()'), ('odd', "ValueError('x')"), ('odd', 'KeyError'), ('odd', 'BadExc()'),
  ('odd', 'datetime.time(1, 2)'), ('odd', 'datetime.timedelta(days=1)'), ('odd', 'datetime.timezone.utc'), ('odd', "moment.tzinfo('UTC')"),
  ('date', 'datetime.date(2020, 1, 2)'), ('date', 'datetime.date.min'), ('date', 'datetime.date.max'), ('date', 'datetime.date(1969, 12, 31)'),
  ('date', 'datetime.date(2040, 1, 1)'), ('date', 'DateSub(2020, 2, 29)'),
  ('datetime', 'datetime.datetime(2020, 1, 2, 3, 4, 5, 678901)'), ('datetime', 'datetime.datetime.min'),
  ('datetime', 'datetime.datetime(1969, 12, 31, 23, 59, 59, 999999)'), ('datetime', 'datetime.datetime(9999, 12, 31, 23, 59, 59, 999000)'),
  ('datetime', 'DTSub(2020, 1, 2, 3, 4)'),
  ('datetime_tz', 'datetime.datetime(2020, 1, 2, tzinfo=datetime.timezone.utc)'),
  ('datetime_tz', 'datetime.datetime(2020, 1, 2, tzinfo=datetime.timezone(datetime.timedelta(hours=5, minutes=30)))'),
  ('datetime_tz', 'datetime.datetime(2020, 1, 2, 3, 4, tzinfo=TZ5())'),
  ('error', "objtypes.RaisedException(ValueError('x'))"), ('error', "objtypes.RaisedException(ValueError('x'), include_details=True)"),
  ('error', "objtypes.RaisedException(KeyError('k'), user_input=5)"), ('error', "objtypes.RaisedException(XExc(), user_input=None)"),
  ('error', "objtypes.RaisedException(objtypes.CellError('T', 'A', 1, ZeroDivisionError('z')), include_details=True)"),
  ('error', "objtypes.RaisedException(objtypes.InvalidTypedValue('Ref', 'abc'))"), ('error', 'objtypes.RaisedException(None)'),
  ('error', 'objtypes.RaisedException(BadExc())'), ('error', "objtypes.RaisedException(BadExc(), user_input='u')"),
  ('error', "objtypes.RaisedException(ValueError('\\ud800'), user_input=[1, {'a': 2}])"),
  ('objtypes', "objtypes.AltText('txt', 'Int')"), ('objtypes', "objtypes.AltText('')"), ('objtypes', "objtypes.UnmarshallableValue('r')"),
  ('objtypes', 'objtypes._pending_sentinel'), ('objtypes', 'objtypes._censored_sentinel'), ('objtypes', "objtypes.RecordStub('T', 1)"),
  ('objtypes', "objtypes.RecordSetStub('T', [1, 2])"), ('objtypes', "objtypes.RecordSetStub('T', (1, 2))"),
  ('objtypes', "objtypes.ReferenceLookup(5, {'raw': 'x'})"), ('objtypes', "objtypes.RecordList([1, 2], group_by=('A',))"),
  ('objtypes', "objtypes.UnmarshallableValue('x' * 500)"),
]
# moment time zones: built by zone_atom()
# engine-only atoms (need a live document: table T with columns A, R (Ref:T), RL (RefList:T))
ENGINE_ATOMS = [
  ('record', 'rec'), ('record', 'T.lookupOne(A=1)'), ('record', 'T.lookupOne(A=999)'), ('record', '$R'), ('record', 'rec.R.R'),
  ('recordset', 'T.lookupRecords(A=1)'), ('recordset', 'T.lookupRecords(A=999)'), ('recordset', "T.lookupRecords(A=$A, order_by='-A')"),
  ('recordset', 'T.all'), ('recordset', '$RL'), ('recordset', "T.lookupRecords(order_by='A')"),
  ('cell', '$A'), ('cell', '$DT'), ('cell', '$D'), ('cell', '$Tx'), ('cell', '$Any'),
]
# Triggers of listed findings
TRIGGER_ATOMS = [
  ('trigger_str', "SSelf('a')"), ('trigger_str', "{S('a'): 1}"), ('trigger_str', '{SE.A: 1}'), ('trigger_str', '{SE2.A: 2}'),
  ('trigger_str', "{SRepr('k'): [1]}"), ('trigger_str', "D({S('a'): 1})"), ('trigger_str', "collections.OrderedDict([(S('a'), 1)])"),
  ('trigger_str', "{'plain': 1, S('sub'): 2}"), ('trigger_str', "objtypes.RaisedException(ValueError('x'), user_input={S('a'): 1})"),
  ('trigger_dt', 'datetime.datetime.max'), ('trigger_dt', 'datetime.datetime(9999, 12, 31, 23, 59, 59, 999990)'),
  ('trigger_dt', "datetime.datetime(9999, 12, 31, 23, 59, 59, 999999, tzinfo=moment.tzinfo('UTC'))"),
]


def zone_atom(R):
  z = R.choice(ZONES)
  y, mo, d, h, mi = R.choice([(2020, 1, 2, 3, 4), (2020, 11, 1, 1, 30), (2021, 3, 14, 2, 30), (1900, 1, 1, 0, 0), (9999, 12, 31, 23, 0),
                              (1, 1, 1, 0, 0), (2038, 1, 19, 3, 14), (1969, 12, 31, 19, 0), (2011, 12, 30, 12, 0)])
  us = R.choice([0, 0, 1, 999999, 123457])
  fold = R.choice(['', '', ', fold=1'])
  return ('datetime_zone', "datetime.datetime(%d, %d, %d, %d, %d, 0, %d, tzinfo=moment.tzinfo(%r)%s)" % (y, mo, d, h, mi, us, z, fold))


ODD_KEYS = ['1', 'None', '(1, 2)', '1.5', "b'k'", 'True', 'frozenset({1})', "S('k')", 'IE.A', 'EqAll()', "datetime.date(2020, 1, 1)"]


class Case(object):
  def __init__(self):
    self.stmts = []
    self.expr = 'None'
    self.tags = []
    self.nvar = 0
    self.heavy = False      # at most one recursive / deep / wide construct per case (they multiply each other's cost)
    self.raises = None      # engine mode: the formula raises this exception expression instead of returning the value

  def var(self):
    self.nvar += 1
    return 'v%d' % self.nvar


# engine mode: exceptions raised by the formula (the engine wraps them in RaisedException itself)
RAISES = ["ValueError(S('m'))", "ValueError(SRepr('m'), 2)", "KeyError({1, 2}, b'x')", 'XExc()', "XExc('\\ud800')", 'BadExc()',
          'StopIteration()', "type('Odd Name', (Exception,), {})('x')", "ValueError('x' * 3000)", 'ZeroDivisionError(I(5))',
          "objtypes.InvalidTypedValue('Ref', 'abc')", "objtypes.CellError('T', 'A', 1, ValueError('inner'))", "UnicodeDecodeError('utf8', b'\\xff', 0, 1, 'bad')",
          "OSError(2, 'No such file', 'f.txt')", "AssertionError([1, {2}])", 'KeyboardInterruptLike()' ]
PRELUDE['KeyboardInterruptLike'] = 'class KeyboardInterruptLike(Exception):\n  args = None'


ORDER = list(PRELUDE)


def blocks_for(text):
  found = set()
  for name in PRELUDE:
    if re.search(r'(?<![A-Za-z0-9_])' + re.escape(name) + r'(?![A-Za-z0-9_])', text):
      found.add(name)
  more = True
  while more:
    more = False
    for b in list(found):
      for n in NEEDS.get(b, []):
        if n not in found:
          found.add(n)
          more = True
  return [b for b in ORDER if b in found]


def body(case, indent=''):
  """Function/formula body computing the value."""
  text = '\n'.join(case.stmts + [case.expr] + ([case.raises] if case.raises else []))
  lines = []
  for b in blocks_for(text):
    lines.extend(PRELUDE[b].split('\n'))
  lines.extend(case.stmts)
  if case.raises:
    # a formula must contain a return statement; the raise is taken for every existing row
    lines.extend(['if rec.id:', '  raise ' + case.raises])
  lines.append('return ' + case.expr)
  return '\n'.join(indent + l for l in lines)


class Builder(object):
  def __init__(self, R, engine=False, triggers=False, max_depth=3):
    self.R = R
    self.engine = engine
    self.triggers = triggers
    self.max_depth = max_depth

  def atom(self, case):
    R = self.R
    r = R.random()
    if self.triggers and r < 0.4:
      cat, e = R.choice(TRIGGER_ATOMS)
    elif self.engine and r < 0.45:
      cat, e = R.choice(ENGINE_ATOMS)
    elif r < 0.55:
      cat, e = zone_atom(R)
    else:
      cat, e = R.choice(ATOMS)
    case.tags.append(cat)
    return e

  def value(self, case, depth=0):
    R = self.R
    if depth >= self.max_depth or R.random() < 0.35 + 0.15 * depth:
      return self.atom(case)
    r = R.random()
    n = R.choice([0, 1, 2, 2, 3])
    if r < 0.26:
      case.tags.append('list')
      return '[' + ', '.join(self.value(case, depth + 1) for _ in range(n)) + ']'
    if r < 0.43:
      case.tags.append('tuple')
      items = [self.value(case, depth + 1) for _ in range(n)]
      return '(' + ', '.join(items) + (',' if len(items) == 1 else '') + ')'
    if r < 0.65:
      case.tags.append('dict')
      keys = R.sample(['a', 'b', 'L', '', 'k e y', '\\xe9', '\\ud800', 'O', 'x' * 40], min(n, 5))
      return '{' + ', '.join("'%s': %s" % (k, self.value(case, depth + 1)) for k in keys) + '}'
    if r < 0.77:
      case.tags.append('dict_odd_keys')
      keys = R.sample(ODD_KEYS, max(1, min(n, 3)))
      if not self.triggers:
        keys = [k for k in keys if k != "S('k')"] or ['1']
      extra = ["'s': 1"] if R.random() < 0.5 else []
      return '{' + ', '.join(['%s: %s' % (k, self.value(case, depth + 1)) for k in keys] + extra) + '}'
    if r < 0.86:
      case.tags.append('seq_sub')
      return R.choice(['L', 'T2']) + '([' + ', '.join(self.value(case, depth + 1) for _ in range(n)) + '])'
    if r < 0.93:
      case.tags.append('error_user_input')
      return 'objtypes.RaisedException(ValueError(1), user_input=%s)' % self.value(case, depth + 1)
    if case.heavy or (self.engine and self.R.random() < 0.5):
      return self.atom(case)      # (in a live document every heavy value is encoded and compared once per row and operation)
    case.heavy = True
    if r < 0.96:
      return self.recursive(case, depth)
    if r < 0.99:
      return self.deep(case, depth)
    return self.wide(case, depth)

  def recursive(self, case, depth):
    R = self.R
    v = case.var()
    kind = R.choice(['list', 'dict', 'tuple_list', 'list_dict', 'L'])
    case.tags.append('recursive_' + kind)
    inner = self.atom(case)
    if kind == 'list':
      case.stmts += ['%s = [%s]' % (v, inner), '%s.append(%s)' % (v, v)]
    elif kind == 'dict':
      case.stmts += ["%s = {'x': %s}" % (v, inner), "%s['self'] = %s" % (v, v)]
    elif kind == 'tuple_list':
      case.stmts += ['%s = ([%s],)' % (v, inner), '%s[0].append(%s)' % (v, v)]
    elif kind == 'list_dict':
      case.stmts += ["%s = [{'a': %s}]" % (v, inner), "%s[0]['up'] = %s" % (v, v)]
    else:
      case.stmts += ['%s = L([%s])' % (v, inner), '%s.append(%s)' % (v, v)]
    return v

  def deep(self, case, depth):
    R = self.R
    v = case.var()
    n = R.choice([30, 150, 400, 900, 990, 1100, 1900, 2100, 3000])
    kind = R.choice(['list', 'list', 'tuple', 'dict', 'mixed'])
    case.tags.append('deep_%s_%d' % (kind, n))
    inner = self.atom(case)
    wrap = {'list': '[%s]', 'tuple': '(%s,)', 'dict': "{'k': %s}", 'mixed': "[{'k': (%s,)}]"}[kind]
    if kind == 'mixed':
      n = n // 3
    case.stmts += ['%s = %s' % (v, inner), 'for _i in range(%d):' % n, '  %s = %s' % (v, wrap % v)]
    return v

  def wide(self, case, depth):
    R = self.R
    kind = R.choice(['list', 'dict', 'str_keys'])
    case.tags.append('wide_' + kind)
    if kind == 'list':
      return 'list(range(%d))' % R.choice([1000, 5000])
    if kind == 'dict':
      return '{str(i): [i] for i in range(%d)}' % R.choice([500, 2000])
    return "{('k' * i): None for i in range(200)}"

  def build(self):
    case = Case()
    case.expr = self.value(case)
    if self.engine and self.R.random() < 0.12:
      case.raises = self.R.choice(RAISES)
      case.tags.append('raises')
    return case


def shape(case):
  """Structural identity of a case for de-duplication: sorted multiset of the categories used."""
  return ','.join(sorted(case.tags))


def nontrivial(case):
  return any(t != 'prim' for t in case.tags)
