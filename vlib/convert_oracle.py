"""
Oracle for C22 (cell value conversion is total and idempotent), written from the property statement only.
Used by props/C22.py on direct hostile inputs and by props/C22_inproc.py inside engine processes.

judge(typ, value, convert, RaisedException) -> (None | (mechanism, message), info)

  * convert(typ, value) must not raise (Exception);
  * the result r must be a value of the type (typ.is_right_type(r)), or the unchanged error object (r is value,
    a RaisedException), or an alt-text str;
  * convert(typ, r) must return the same value as r.

"The same value" is decided on the Python value: same type and equal (NaN equals NaN); sequences element-wise.
A list and a subclass of list (objtypes.RecordList is "just like list" with sorting hints attached) holding the same
elements are the same value: the hints are not part of the cell value (both encode to the same ['L', ...]). Likewise
a str and a str subclass with the same characters.
"""
import math


def safe_repr(v, limit=200):
  try:
    r = repr(v)
  except BaseException as e:      # pylint: disable=broad-except
    r = '<repr failed: %s>' % type(e).__name__
  return r if len(r) <= limit else r[:limit] + '...'


def same_value(a, b, notes=None, depth=0):
  if depth > 50:
    return a is b or _eq(a, b)
  if isinstance(a, list) and isinstance(b, list):
    if type(a) is not type(b) and notes is not None:
      notes.append('list_subclass_differs')
    return len(a) == len(b) and all(same_value(x, y, notes, depth + 1) for x, y in zip(a, b))
  if isinstance(a, str) and isinstance(b, str) and type(a) is not type(b):
    # str and a str subclass with the same characters (str() of an object may return either): the same text
    if notes is not None:
      notes.append('str_subclass_differs')
    return str.__eq__(a, b) is True
  if type(a) is not type(b):
    return False
  if isinstance(a, float):
    return a == b or (math.isnan(a) and math.isnan(b))
  if isinstance(a, tuple):
    return len(a) == len(b) and all(same_value(x, y, notes, depth + 1) for x, y in zip(a, b))
  return a is b or _eq(a, b)


def _eq(a, b):
  try:
    return bool(a == b)
  except Exception:      # pylint: disable=broad-except
    return False


def result_kind(typ, value, result, RaisedException):
  """'right_type' | 'error_unchanged' | 'alt_text' | None (none of the three the statement allows)."""
  try:
    if typ.is_right_type(result):
      return 'right_type'
  except Exception:      # pylint: disable=broad-except
    pass
  if isinstance(result, RaisedException):
    return 'error_unchanged' if result is value else None
  if isinstance(result, str):
    return 'alt_text'
  return None


def mech_of(kind, tname, result=None, again=None):
  """Mechanism keys (what the ledger matches on)."""
  if kind == 'idempotent':
    # the class of the failure: which kind of result turned into which kind of value
    return 'not_idempotent:%s:%s->%s' % (tname, shape(result), shape(again))
  return '%s:%s' % (kind, tname)


def shape(v):
  if v is None:
    return 'None'
  if isinstance(v, (list, tuple)):
    return '%s(%s)' % (type(v).__name__, 'empty' if not len(v) else 'nonempty')
  return type(v).__name__


def judge(typ, value, convert, RaisedException):
  tname = type(typ).__name__
  info = {'kind': None, 'changed': False, 'notes': []}
  try:
    result = convert(typ, value)
  except Exception as e:      # pylint: disable=broad-except
    return (mech_of('raises', tname), 'convert(%s) raised %s' % (safe_repr(value), type(e).__name__)), info
  kind = result_kind(typ, value, result, RaisedException)
  info['kind'] = kind
  info['changed'] = result is not value
  info['result'] = result
  if kind is None:
    return (mech_of('result_type', tname), 'convert(%s) returned %s, which is neither a %s value, nor the unchanged error, nor a string' % (
        safe_repr(value), safe_repr(result), tname)), info
  try:
    again = convert(typ, result)
  except Exception as e:      # pylint: disable=broad-except
    return (mech_of('reconvert_raises', tname), 'convert(%s) returned %s; converting that again raised %s' % (
        safe_repr(value), safe_repr(result), type(e).__name__)), info
  try:
    same = same_value(again, result, info['notes'])
  except RecursionError:
    info['notes'].append('too_deep_to_compare')
    return None, info
  if not same:
    return (mech_of('idempotent', tname, result, again), 'convert(%s) returned %s; converting that again returned %s' % (
        safe_repr(value), safe_repr(result), safe_repr(again))), info
  return None, info
