"""
Harness side of the engine process: speaks the repository's sandbox pipe protocol (marshal-framed
CALL / DATA / EXC messages, as Node's NSandbox does) and records the call/reply history at the
client boundary.
"""
import os
import sys
import time
import select
import struct
import marshal
import subprocess

VERIF = os.path.dirname(os.path.dirname(os.path.abspath(__file__)))
REPO = os.environ.get('VERIF_REPO', '/repo')
PY = os.environ.get('VERIF_PYTHON', '/venv/bin/python')
GRIST = os.path.join(REPO, 'sandbox', 'grist')


class EngineError(Exception):
  """The engine replied EXC (the call raised)."""
  def __init__(self, text):
    Exception.__init__(self, text)
    self.text = text
    self.cls = text.split(' ', 1)[0] if text else ''


class Watchdog(Exception):
  """The engine did not reply within the wall-clock budget (verdict: inconclusive)."""


class EngineDied(Exception):
  """The engine process closed the pipe (crash)."""


def to_lists(v):
  """Marshal replies contain tuples (e.g. (env, action) pairs); make them plain lists."""
  if isinstance(v, (list, tuple)):
    return [to_lists(x) for x in v]
  if isinstance(v, dict):
    return {k: to_lists(x) for k, x in v.items()}
  return v


def guess_col_info(values):
  """Stand-in for Node's guessColInfo (not under test): Numeric if all non-blank parse as numbers."""
  def num(s):
    try:
      return float(s) if ('.' in s or 'e' in s.lower()) else int(s)
    except (ValueError, TypeError):
      return None
  nonblank = [v for v in values if v not in ('', None)]
  if nonblank and all(isinstance(v, str) and num(v.strip()) is not None for v in nonblank):
    return {'colInfo': {'type': 'Numeric'},
            'values': [None if v in ('', None) else num(v.strip()) for v in values]}
  return {'colInfo': {'type': 'Text'}}


class EngineProc(object):
  def __init__(self, hashseed=0, contracts='', failpoints=False, timeout=240.0, log=None,
               record=True, extra_env=None):
    env = dict(os.environ)
    env['PYTHONPATH'] = os.path.join(VERIF, 'shim') + os.pathsep + GRIST
    env['PIPE_MODE'] = 'minimal'
    env['PYTHONHASHSEED'] = str(hashseed)
    env['PYTHONDONTWRITEBYTECODE'] = '1'
    env['VERIF_CONTRACTS'] = contracts
    env['VERIF_FAILPOINTS'] = '1' if failpoints else '0'
    env.pop('DETERMINISTIC_MODE', None)
    if log:
      env['VERIF_WORKER_LOG'] = log
    else:
      env.pop('VERIF_WORKER_LOG', None)
    if extra_env:
      env.update(extra_env)
    self.proc = subprocess.Popen([PY, os.path.join(VERIF, 'vlib', 'worker.py')],
                                 stdin=subprocess.PIPE, stdout=subprocess.PIPE,
                                 stderr=subprocess.DEVNULL, env=env, cwd=GRIST, bufsize=0)
    self.fd_in = self.proc.stdout.fileno()
    self.buf = b''
    self.timeout = timeout
    self.history = [] if record else None
    self.ncalls = 0
    self.dead = False

  # ------------------------------------------------------------------ low level
  def _read_exact(self, n, deadline):
    while len(self.buf) < n:
      left = deadline - time.time()
      if left <= 0:
        raise Watchdog('no reply within %.0fs' % self.timeout)
      r, _, _ = select.select([self.fd_in], [], [], min(left, 5.0))
      if not r:
        continue
      chunk = os.read(self.fd_in, 1 << 20)
      if not chunk:
        self.dead = True
        raise EngineDied('engine closed the pipe')
      self.buf += chunk
    out, self.buf = self.buf[:n], self.buf[n:]
    return out

  def _read_msg(self, deadline):
    head = self._read_exact(5, deadline)
    code = head[0] & 0x7f
    if code != ord('s'):
      raise EngineDied('unexpected frame type %r' % head[:1])
    (n,) = struct.unpack('<i', head[1:5])
    body = self._read_exact(n, deadline)
    return marshal.loads(body)

  def _send(self, code, body):
    data = marshal.dumps(code, 2) + marshal.dumps(body, 2)
    self.proc.stdin.write(data)
    self.proc.stdin.flush()

  def call(self, name, *args, **kw):
    """Call an exported function. Returns its result; raises EngineError on EXC."""
    timeout = kw.pop('timeout', None) or self.timeout
    record = kw.pop('record', True)
    if self.dead:
      raise EngineDied('engine is dead')
    entry = None
    if self.history is not None and record and not name.startswith('verif_'):
      entry = {'call': [name] + list(args)}
      self.history.append(entry)
    self.ncalls += 1
    try:
      self._send(None, [name] + list(args))
    except (BrokenPipeError, OSError):
      self.dead = True
      raise EngineDied('broken pipe on send')
    deadline = time.time() + timeout
    while True:
      msg = self._read_msg(deadline)
      code, data = msg
      if code is None:
        # Call from the engine to "Node".
        fname = data[0]
        if fname == 'guessColInfo':
          self._send(True, guess_col_info(data[1]))
        else:
          self._send(False, 'unknown external function %s' % fname)
        continue
      if code is True:
        if entry is not None:
          entry['ok'] = True
        return to_lists(data)
      if entry is not None:
        entry['ok'] = False
        entry['exc'] = data
      raise EngineError(data)

  def close(self):
    try:
      self.proc.stdin.close()
    except Exception:      # pylint: disable=broad-except
      pass
    try:
      self.proc.wait(timeout=5)
    except Exception:      # pylint: disable=broad-except
      self.proc.kill()
      self.proc.wait()
    try:
      self.proc.stdout.close()
    except Exception:      # pylint: disable=broad-except
      pass

  def kill(self):
    try:
      self.proc.kill()
      self.proc.wait()
    except Exception:      # pylint: disable=broad-except
      pass
    self.dead = True

  def __enter__(self):
    return self

  def __exit__(self, *a):
    if self.dead:
      self.kill()
    else:
      self.close()

  # ------------------------------------------------------------------ conveniences
  def init_doc(self):
    self.call('load_empty')
    return self.apply([['InitNewDoc']])

  def apply(self, user_actions, **kw):
    """apply_user_actions through the exported function; returns a Reply."""
    r = self.call('apply_user_actions', user_actions, **kw)
    return Reply(r)

  def try_apply(self, user_actions, **kw):
    """Returns (Reply, None) or (None, EngineError)."""
    try:
      return self.apply(user_actions, **kw), None
    except EngineError as e:
      return None, e

  def snapshot_raw(self):
    return self.call('verif_snapshot')

  def fetch(self, table_id, formulas=True):
    return self.call('fetch_table', table_id, formulas)


class Reply(object):
  def __init__(self, r):
    self.raw = r
    self.stored = [a for (_, a) in r['stored']]
    self.undo = [a for (_, a) in r['undo']]
    self.calc = [a for (_, a) in r['calc']]
    self.direct = [d for (_, d) in r['direct']]
    self.direct_raw = r['direct']
    self.ret = r['retValues']
    self.row_count = r.get('rowCount')
