"""
Check runner: ./check <ID> [--tier quick|thorough] [--replay file] [--jobs N]

Plans shards (props/<ID>.py: plan(tier, seed)), runs each shard in its own subprocess under a
wall-clock watchdog (never multiprocessing.Pool), merges the measured counters, applies the
known-findings ledger, writes evidence/<ID>.json and decides the three-valued verdict:
  exit 0  held on everything explored (after KNOWN-FINDING lines, if any)
  exit 1  VIOLATION property=<id> replay=<path>      (an unlisted violation)
  exit 3  INCONCLUSIVE property=<id> ...              (watchdog fired / deciding monitor not reached)
"""
import os
import sys
import json
import time
import shutil
import argparse
import importlib
import subprocess

VERIF = os.path.dirname(os.path.dirname(os.path.abspath(__file__)))
PY = os.environ.get('VERIF_PYTHON', '/venv/bin/python')
WORK = os.path.join(VERIF, '.work')
LEDGER = os.path.join(VERIF, 'known_findings.txt')


def load_ledger():
  """Lines 'open: property=<id> mech=<key> <what>' and 'fixed: property=<id> <commit> <what>'."""
  out = []
  if os.path.exists(LEDGER):
    for line in open(LEDGER):
      line = line.strip()
      if not line or line.startswith('#'):
        continue
      status, _, rest = line.partition(':')
      rest = rest.strip()
      if status == 'open':
        parts = rest.split(' ', 2)
        out.append({'status': 'open', 'property': parts[0].split('=', 1)[1], 'mech': parts[1].split('=', 1)[1],
                    'what': parts[2] if len(parts) > 2 else ''})
      elif status == 'fixed':
        parts = rest.split(' ', 2)
        out.append({'status': 'fixed', 'property': parts[0].split('=', 1)[1], 'commit': parts[1],
                    'what': parts[2] if len(parts) > 2 else ''})
  return out


def shard_env():
  env = dict(os.environ)
  env['PYTHONPATH'] = os.pathsep.join([VERIF, os.path.join(VERIF, 'shim'),
                                       os.path.join(os.environ.get('VERIF_REPO', '/repo'), 'sandbox', 'grist')])
  env['PYTHONHASHSEED'] = '0'
  env['PYTHONDONTWRITEBYTECODE'] = '1'
  return env


def run_shards(pid, specs, jobs, default_timeout):
  """Run shard specs in parallel subprocesses. Returns list of (spec, result-or-None, note)."""
  wdir = os.path.join(WORK, '%s-%d' % (pid, os.getpid()))
  shutil.rmtree(wdir, ignore_errors=True)
  os.makedirs(wdir)
  pending = list(enumerate(specs))
  running = []
  done = [None] * len(specs)
  env = shard_env()
  try:
    while pending or running:
      while pending and len(running) < jobs:
        i, spec = pending.pop(0)
        spec = dict(spec, out=os.path.join(wdir, 'out%d.json' % i), workdir=os.path.join(wdir, 'w%d' % i))
        os.makedirs(spec['workdir'], exist_ok=True)
        sf = os.path.join(wdir, 'spec%d.json' % i)
        with open(sf, 'w') as f:
          json.dump(spec, f)
        errf = open(os.path.join(wdir, 'err%d.txt' % i), 'w')
        p = subprocess.Popen([PY, '-m', 'vlib.shard', pid, sf], cwd=VERIF, env=env,
                             stdout=errf, stderr=errf, start_new_session=True)
        running.append((i, spec, p, time.time(), errf))
      time.sleep(0.05)
      still = []
      for (i, spec, p, t0, errf) in running:
        rc = p.poll()
        timeout = spec.get('timeout', default_timeout)
        if rc is None:
          if time.time() - t0 > timeout:
            try:
              os.killpg(p.pid, 9)
            except Exception:      # pylint: disable=broad-except
              p.kill()
            p.wait()
            errf.close()
            done[i] = (spec, None, 'watchdog after %ds' % timeout)
          else:
            still.append((i, spec, p, t0, errf))
          continue
        errf.close()
        res = None
        note = None
        try:
          with open(spec['out']) as f:
            res = json.load(f)
        except Exception as e:      # pylint: disable=broad-except
          tail = ''
          try:
            tail = open(os.path.join(wdir, 'err%d.txt' % i)).read()[-1500:]
          except Exception:      # pylint: disable=broad-except
            pass
          note = 'shard crashed rc=%s: %s\n%s' % (rc, e, tail)
        done[i] = (spec, res, note)
      running = still
  finally:
    for (i, spec, p, t0, errf) in running:
      try:
        os.killpg(p.pid, 9)
      except Exception:      # pylint: disable=broad-except
        pass
    shutil.rmtree(wdir, ignore_errors=True)
  return done


def merge(results):
  m = {'evaluations': 0, 'hashes': set(), 'samples': [], 'counters': {}, 'sets': {},
       'violations': [], 'inconclusive': []}
  for spec, res, note in results:
    if res is None:
      m['inconclusive'].append('shard %s: %s' % (spec.get('shard'), note))
      continue
    m['evaluations'] += res.get('evaluations', 0)
    m['hashes'].update(res.get('hashes', []))
    for s in res.get('samples', []):
      if len(m['samples']) < 4:
        m['samples'].append(s)
    for k, v in res.get('counters', {}).items():
      m['counters'][k] = m['counters'].get(k, 0) + v
    for k, v in res.get('sets', {}).items():
      m['sets'].setdefault(k, set()).update(v)
    for v in res.get('violations', []):
      v.setdefault('spec', {k: x for k, x in spec.items() if k not in ('out', 'workdir')})
      m['violations'].append(v)
    m['inconclusive'].extend(res.get('inconclusive', []))
  return m


def write_evidence(pid, mod, tier, seed, m, wall, nviol, extra=None):
  cov = {
    'evaluations': int(m['evaluations']),
    'distinct_nontrivial': len(m['hashes']),
    'rule': mod.RULE,
    'samples': m['samples'] or ['(no sample recorded)'],
    'counters': {k: m['counters'][k] for k in sorted(m['counters'])},
  }
  for k, v in m['sets'].items():
    cov[k] = sorted(v, key=str)[:200]
    cov['n_' + k] = len(v)
  if getattr(mod, 'EXHAUSTIVE', None):
    cov['exhaustive'] = bool(mod.EXHAUSTIVE(tier) if callable(mod.EXHAUSTIVE) else mod.EXHAUSTIVE)
  if getattr(mod, 'EXPLANATION', None):
    cov['explanation'] = mod.EXPLANATION
  if extra:
    cov.update(extra)
  ev = {
    'property_id': pid, 'tier': tier, 'seed': int(seed), 'level': mod.LEVEL,
    'coverage': cov,
    'assumptions': list(getattr(mod, 'ASSUMPTIONS', [])),
    'wall_s': round(wall, 2),
    'violations': int(nviol),
  }
  evdir = os.environ.get('VERIF_EVIDENCE_DIR') or os.path.join(VERIF, 'evidence')
  os.makedirs(evdir, exist_ok=True)
  tmp = os.path.join(evdir, pid + '.json.tmp')
  with open(tmp, 'w') as f:
    json.dump(ev, f, indent=1, sort_keys=True, default=repr)
    f.write('\n')
  os.replace(tmp, os.path.join(evdir, pid + '.json'))


def main(argv=None):
  ap = argparse.ArgumentParser()
  ap.add_argument('pid')
  ap.add_argument('--tier', default=os.environ.get('VERIF_TIER', 'quick'), choices=['quick', 'thorough'])
  ap.add_argument('--replay', default=None)
  ap.add_argument('--jobs', type=int, default=int(os.environ.get('VERIF_JOBS', '16')))
  ap.add_argument('--seed', type=int, default=None)
  args = ap.parse_args(argv)
  pid = args.pid
  seed = args.seed if args.seed is not None else int(os.environ.get('VERIF_SEED', '0') or 0)
  sys.path.insert(0, VERIF)
  mod = importlib.import_module('props.' + pid)
  t0 = time.time()

  if args.replay:
    with open(args.replay) as f:
      rp = json.load(f)
    specs = [dict(rp['spec'], replay=True)]
    tier = rp.get('tier', args.tier)
  else:
    tier = args.tier
    specs = mod.plan(tier, seed)
    for i, s in enumerate(specs):
      s.setdefault('shard', i)
      s.setdefault('seed', seed)
      s.setdefault('tier', tier)
  timeout = getattr(mod, 'SHARD_TIMEOUT', {'quick': 900, 'thorough': 3600})[tier]
  # The shard watchdog only guards against hangs (its firing is inconclusive, never a violation); on a loaded
  # machine a shard can take many times its usual wall time, so a floor applies to whatever the module asks for.
  timeout = max(timeout, {'quick': 900, 'thorough': 3600}[tier])
  results = run_shards(pid, specs, args.jobs, timeout)
  m = merge(results)

  # Deciding-monitor counters: a run that observed nothing is inconclusive, not held.
  for key, minimum in getattr(mod, 'REQUIRED', {}).items():
    if args.replay:
      break
    need = minimum[tier] if isinstance(minimum, dict) else minimum
    if m['counters'].get(key, 0) < need:
      m['inconclusive'].append('deciding counter %s = %d < %d' % (key, m['counters'].get(key, 0), need))

  ledger = [e for e in load_ledger() if e.get('property') == pid]
  open_entries = {e['mech']: e for e in ledger if e.get('status') == 'open'}
  known_seen = {}
  unlisted = []
  for v in m['violations']:
    mech = v.get('mech')
    if mech in open_entries:
      known_seen.setdefault(mech, v)
    else:
      unlisted.append(v)
  for mech, v in sorted(known_seen.items()):
    print('KNOWN-FINDING: property=%s %s [%s]' % (pid, open_entries[mech]['what'], mech))
  m['counters']['known_finding_hits'] = sum(1 for v in m['violations'] if v.get('mech') in open_entries)

  rdir = os.environ.get('VERIF_REPLAY_DIR') or os.path.join(VERIF, 'replays')
  paths = []
  seen_mech = set()
  for v in unlisted:
    key = v.get('mech') or v.get('summary')
    if key in seen_mech and len(paths) >= 1:
      continue
    seen_mech.add(key)
    if len(paths) >= 5:
      break
    os.makedirs(rdir, exist_ok=True)
    path = os.path.join(rdir, '%s-%s-seed%d-%d.json' % (pid, tier, seed, len(paths)))
    with open(path, 'w') as f:
      json.dump({'property': pid, 'tier': tier, 'seed': seed, 'spec': v.get('spec'),
                 'mech': v.get('mech'), 'summary': v.get('summary'), 'detail': v.get('detail')},
                f, indent=1, default=repr)
    paths.append((path, v))

  wall = time.time() - t0
  if not args.replay:
    write_evidence(pid, mod, tier, seed, m, wall, len(unlisted),
                   extra={'known_findings_reported': sorted(known_seen)} if known_seen else None)

  for path, v in paths:
    print('VIOLATION property=%s replay=%s' % (pid, path))
    print('  mech=%s %s' % (v.get('mech'), str(v.get('summary'))[:600]))
  if paths:
    return 1
  if m['inconclusive']:
    for msg in m['inconclusive'][:5]:
      print('INCONCLUSIVE property=%s %s' % (pid, msg[:1500]))
    return 3
  print('OK property=%s tier=%s seed=%d evaluations=%d distinct_nontrivial=%d wall=%.1fs' % (
      pid, tier, seed, m['evaluations'], len(m['hashes']), wall))
  return 0


if __name__ == '__main__':
  sys.exit(main())
