"""
C40: generator of predicate-formula expressions and an independent evaluator of parse trees.

Nothing here imports the repository. The expression model is a small tuple AST of the *supported
subset* documented in predicate_formula.parse_predicate_formula:

  ('const', v) ('name', id) ('dollar', id) ('attr', e, id) ('list', [e..]) ('tuple', [e..])
  ('bool', 'and'|'or', [e..]) ('not', e) ('bin', op, l, r) ('cmp', op, l, r) ('call', f, [args], [(k, e)..])

render(e, R) gives the text handed to the parser ('$x', tuple displays, odd spacing, redundant
parentheses, alternative literal spellings); render_ref(e) gives the reference text for Python's
eval: '$x' written as 'rec.x' and tuple displays written as list displays (the documented node
table does not distinguish tuples and lists: both are `List`).

evaluate(tree, env) is written from the documented node table with Python's meaning of each node.
"""
import json
import math
import operator

BIN_OPS = {'+': 'Add', '-': 'Sub', '*': 'Mult', '/': 'Div', '%': 'Mod'}
CMP_OPS = {'==': 'Eq', '!=': 'NotEq', '<': 'Lt', '<=': 'LtE', '>': 'Gt', '>=': 'GtE', 'is': 'Is', 'is not': 'IsNot',
           'in': 'In', 'not in': 'NotIn'}

PREC = {'bool_or': 1, 'bool_and': 2, 'not': 3, 'cmp': 4, 'add': 5, 'mul': 6, 'atom': 9}


def prec(e):
  k = e[0]
  if k == 'bool':
    return PREC['bool_or'] if e[1] == 'or' else PREC['bool_and']
  if k == 'not':
    return PREC['not']
  if k == 'cmp':
    return PREC['cmp']
  if k == 'bin':
    return PREC['add'] if e[1] in '+-' else PREC['mul']
  if k == 'tuple':
    return 0        # always parenthesised by its own renderer
  return PREC['atom']


# ----------------------------------------------------------------------------------------------
# Constants and their spellings
INT_CONSTS = [0, 1, 2, 3, 7, 10, 255, 1000, 10 ** 20, 2 ** 64, 2 ** 1024, 10 ** 400]
FLOAT_CONSTS = [0.5, 2.0, 1e10, 1.5e-3, 0.0, 3.25, 1e308, 5e-324]
STR_CONSTS = ['a', 'b', '', 'x y', "it's", 'say "hi"', 'é', '$a', '# no comment', 'rec.a', 'A', 'abc', 'line\nbreak',
              'back\\slash', '%s', '%s-%s', 'Seattle', 'owners', '☃', 'tab\there']
NAMES = ['rec', 'user', 'newRec', 'choice', 'f', 'g', 'undefined_name', 'OWNER']
ATTRS = ['a', 'b', 's', 't', 'n', 'z', 'lst', 'sub', 'flag', 'missing', 'Email', 'office']


def spell_const(v, R):
  if v is None or v is True or v is False:
    return repr(v)
  if isinstance(v, int):
    r = R.random()
    if r < 0.1 and v >= 0:
      return hex(v)
    if r < 0.2 and v >= 1000:
      s = str(v)
      return s[:-3] + '_' + s[-3:]
    if r < 0.25 and v >= 0:
      return '0o%o' % v
    return repr(v)
  if isinstance(v, float):
    r = R.random()
    s = repr(v)
    if r < 0.15 and s.endswith('.0'):
      return s[:-1]                # '2.'
    if r < 0.3 and s.startswith('0.'):
      return s[1:]                 # '.5'
    if r < 0.4 and v == 1e10:
      return '1E10'
    return s
  # str
  r = R.random()
  if r < 0.5:
    return repr(v)
  if r < 0.75:
    return json.dumps(v, ensure_ascii=R.random() < 0.5)      # double-quoted, JSON escapes are valid Python escapes
  if r < 0.85 and '\\' not in v and "'''" not in v and not v.endswith("'"):
    return "'''" + v + "'''"
  if r < 0.93 and len(v) >= 2 and '\\' not in v and '\n' not in v and '\t' not in v:
    k = R.randrange(1, len(v))
    return repr(v[:k]) + ' ' + repr(v[k:])                   # implicit concatenation: one constant
  if '\\' not in v and "'" not in v and '\n' not in v and '\t' not in v:
    return "r'" + v + "'"
  return repr(v)


# ----------------------------------------------------------------------------------------------
# Generator of subset expressions
class Gen(object):
  def __init__(self, R, max_depth=4):
    self.R = R
    self.max_depth = max_depth

  def const(self):
    R = self.R
    r = R.random()
    if r < 0.3:
      return ('const', R.choice(INT_CONSTS))
    if r < 0.45:
      return ('const', R.choice(FLOAT_CONSTS))
    if r < 0.8:
      return ('const', R.choice(STR_CONSTS))
    return ('const', R.choice([True, False, None]))

  def ref(self):
    R = self.R
    r = R.random()
    if r < 0.4:
      e = ('dollar', R.choice(ATTRS))
    elif r < 0.8:
      e = ('attr', ('name', R.choice(['rec', 'user', 'newRec', 'choice'])), R.choice(ATTRS))
    else:
      e = ('name', R.choice(NAMES))
    if R.random() < 0.2:
      e = ('attr', e, R.choice(ATTRS + ['lower', 'upper']))
    return e

  def atom(self):
    return self.const() if self.R.random() < 0.45 else self.ref()

  def expr(self, depth=0):
    R = self.R
    if depth >= self.max_depth or R.random() < 0.18 + 0.12 * depth:
      return self.atom()
    r = R.random()
    d = depth + 1
    if r < 0.2:
      n = R.choice([2, 2, 2, 3, 4])
      return ('bool', R.choice(['and', 'or']), [self.expr(d) for _ in range(n)])
    if r < 0.28:
      return ('not', self.expr(d))
    if r < 0.45:
      return ('bin', R.choice(list(BIN_OPS)), self.expr(d), self.expr(d))
    if r < 0.72:
      op = R.choice(list(CMP_OPS))
      if op in ('is', 'is not'):
        # identity is only meaningful against the singletons (anything else depends on object identity of constants)
        return ('cmp', op, self.expr(d), ('const', R.choice([None, None, True, False])))
      if op in ('in', 'not in'):
        right = self.listy(d) if R.random() < 0.7 else self.expr(d)
        return ('cmp', op, self.expr(d), right)
      return ('cmp', op, self.expr(d), self.expr(d))
    if r < 0.82:
      return self.listy(d)
    if r < 0.94:
      return self.call(d)
    return self.atom()

  def listy(self, d):
    R = self.R
    n = R.choice([0, 1, 2, 2, 3, 4])
    items = [self.expr(d + 1) for _ in range(n)]
    return (R.choice(['list', 'list', 'tuple']), items)

  def call(self, d):
    R = self.R
    r = R.random()
    if r < 0.4:
      f = ('name', R.choice(['f', 'g', 'f', 'undefined_name']))
    elif r < 0.8:
      f = ('attr', self.ref(), R.choice(['lower', 'upper', 'startswith', 'count', 'get', 'method']))
    else:
      f = self.expr(d + 1)
    args = [self.expr(d + 1) for _ in range(R.choice([0, 0, 1, 1, 2, 3]))]
    kwargs = []
    if R.random() < 0.3:
      names = R.sample(['k', 'default', 'b', 'c', 'match_empty'], R.choice([1, 1, 2]))
      kwargs = [(k, self.expr(d + 1)) for k in names]
    return ('call', f, args, kwargs)


# ----------------------------------------------------------------------------------------------
# Rendering
def _sp(R):
  return R.choice(['', ' ', ' ', ' ', '  ']) if R is not None else ' '

def _wrap(s, R):
  if R is not None and R.random() < 0.25:
    return '(' + _sp(R).replace('  ', '\n ') + s + _sp(R) + ')'
  return '(' + s + ')'

def render(e, R=None, ref=False, parent=0, side=None, dollar='$'):
  """Text of the expression. ref=True: the reference spelling (no '$', no tuple displays, canonical
  spacing and literals). R=None renders deterministically. dollar='rec.' with the same random
  stream gives the parser's text with every $x spelt rec.x (valid Python; used to self-check the
  renderer against the reference text with Python's own ast)."""
  k = e[0]
  p = prec(e)
  sp = (lambda: ' ') if (ref or R is None) else (lambda: _sp(R) or ' ')
  tight = (lambda: '') if (ref or R is None) else (lambda: R.choice(['', '', ' ']))
  def sub(x, parent=0, side=None):
    return render(x, R, ref, parent, side, dollar)
  if k == 'const':
    s = repr(e[1]) if (ref or R is None) else spell_const(e[1], R)
    # A float literal spelt '2.' or an int literal directly followed by '.attr' would lex differently.
    if side == 'attrbase' and not isinstance(e[1], str) and e[1] not in (None, True, False):
      s = '(' + s + ')'
  elif k == 'name':
    s = e[1]
  elif k == 'dollar':
    s = ('rec.' if ref else dollar) + e[1]
  elif k == 'attr':
    s = sub(e[1], PREC['atom'], 'attrbase') + '.' + e[2]
  elif k in ('list', 'tuple'):
    items = [sub(x, 0) for x in e[1]]
    inner = (',' + sp()).join(items)
    if k == 'tuple' and not ref:
      if len(items) == 1:
        inner += ','
      s = '(' + tight() + inner + tight() + ')'
    else:
      if items and not ref and R is not None and R.random() < 0.15:
        inner += ','
      s = '[' + tight() + inner + tight() + ']'
  elif k == 'bool':
    # nested bool ops of the same kind are always parenthesised, so that the grouping is the one drawn
    parts = [sub(x, p + 1 if (x[0] == 'bool') else p) for x in e[2]]
    s = (' ' + e[1] + ' ').join(parts)
  elif k == 'not':
    s = 'not ' + sub(e[1], p)
  elif k == 'bin':
    s = sub(e[2], p) + sp() + e[1] + sp() + sub(e[3], p + 1)
  elif k == 'cmp':
    # operands of a comparison that are comparisons themselves must be parenthesised (else: chained)
    s = sub(e[2], p + 1) + ' ' + e[1] + ' ' + sub(e[3], p + 1)
  elif k == 'call':
    args = [sub(x, 0) for x in e[2]] + ['%s%s=%s%s' % (n, tight(), tight(), sub(v, 0)) for n, v in e[3]]
    s = sub(e[1], PREC['atom'], 'attrbase') + '(' + tight() + (',' + sp()).join(args) + tight() + ')'
  else:
    raise ValueError('unknown model node %r' % (k,))
  if p < parent or (p == parent and k == 'cmp'):
    return _wrap(s, None if ref else R)
  if not ref and R is not None and k not in ('tuple',) and R.random() < 0.06:
    return _wrap(s, R)
  return s


def render_ref(e):
  return render(e, None, True)


def shape(e, depth=0):
  """Structural hash material: node kinds/operators with constants abstracted to their type."""
  k = e[0]
  if k == 'const':
    return 'c:' + type(e[1]).__name__
  if k in ('name', 'dollar'):
    return k
  if k == 'attr':
    return 'attr(' + shape(e[1], depth + 1) + ')'
  if k in ('list', 'tuple'):
    return k + '[' + ','.join(shape(x, depth + 1) for x in e[1]) + ']'
  if k == 'bool':
    return e[1] + '(' + ','.join(shape(x, depth + 1) for x in e[2]) + ')'
  if k == 'not':
    return 'not(' + shape(e[1], depth + 1) + ')'
  if k in ('bin', 'cmp'):
    return e[1] + '(' + shape(e[2], depth + 1) + ',' + shape(e[3], depth + 1) + ')'
  if k == 'call':
    return 'call(' + shape(e[1], depth + 1) + ';' + ','.join(shape(x, depth + 1) for x in e[2]) + ';' + \
        ','.join(n for n, _ in e[3]) + ')'
  return '?'


def size(e):
  k = e[0]
  if k in ('const', 'name', 'dollar'):
    return 1
  if k == 'attr' or k == 'not':
    return 1 + size(e[1])
  if k in ('list', 'tuple'):
    return 1 + sum(size(x) for x in e[1])
  if k == 'bool':
    return 1 + sum(size(x) for x in e[2])
  if k in ('bin', 'cmp'):
    return 1 + size(e[2]) + size(e[3])
  if k == 'call':
    return 1 + size(e[1]) + sum(size(x) for x in e[2]) + sum(size(v) for _, v in e[3])
  return 1


# ----------------------------------------------------------------------------------------------
# Evaluation environments
class Obj(object):
  """A record-like object: attribute access only; unknown attributes raise AttributeError."""
  def __init__(self, name, **kw):
    self._name = name
    self.__dict__.update(kw)
  def method(self, *a, **k):
    return ('method', self._name, a, tuple(sorted(k.items())))
  def get(self, key, default=None):
    return self.__dict__.get(key, default)
  def __repr__(self):
    return '<Obj %s>' % self._name


def make_env(variant, log):
  """Environment number `variant` (different attribute values, so that a mistranslation that happens
  to evaluate equally under one assignment does not under another). Calls append to `log`."""
  def f(*a, **k):
    log.append(('f', len(a), tuple(sorted(k))))
    return a[0] if a else 'f-result'
  def g(*a, **k):
    log.append(('g', len(a), tuple(sorted(k))))
    return len(a) + len(k)
  base = [
    dict(a=1, b=2, s='Seattle', t='abc', n=None, z=0, lst=[1, 2, 'a'], flag=True, Email='sally@x', office='Seattle'),
    dict(a=0, b=2.5, s='', t='ABC', n=None, z=0.0, lst=[], flag=False, Email='xie@y', office='NYC'),
    dict(a='a', b=7, s='x y', t='a', n=0, z=3, lst=['a', 'b', [1]], flag=None, Email='', office=None),
    dict(a=10 ** 20, b=-2, s='%s', t='%s-%s', n='', z=1, lst=(1, 2), flag=1, Email='A', office='owners'),
  ][variant % 4]
  sub = Obj('sub', a=base['b'], s='sub-s', lst=[base['a']])
  rec = Obj('rec', sub=sub, **base)
  user = Obj('user', a=base['s'], b=base['a'], s='owners', t='Editor', n=None, z=2, lst=['owners', 'editors'],
             flag=not base['flag'], Email='sally@x', office='Seattle', sub=sub)
  newRec = Obj('newRec', **dict(base, a=base['b'], b=base['a'], sub=rec))
  choice = Obj('choice', a='a', s='Seattle', lst=[rec], n=None, z=0, b=1, t='t', flag=True, Email='c', office='Seattle', sub=sub)
  return {'rec': rec, 'user': user, 'newRec': newRec, 'choice': choice, 'f': f, 'g': g, 'OWNER': 'owners'}


# ----------------------------------------------------------------------------------------------
# The independent evaluator (documented node table, Python meaning of each node)
class UnknownNode(Exception):
  """The tree contains something the documented node table does not define."""


_BIN = {'Add': operator.add, 'Sub': operator.sub, 'Mult': operator.mul, 'Div': operator.truediv, 'Mod': operator.mod}
_CMP = {'Eq': operator.eq, 'NotEq': operator.ne, 'Lt': operator.lt, 'LtE': operator.le, 'Gt': operator.gt, 'GtE': operator.ge,
        'Is': operator.is_, 'IsNot': operator.is_not,
        'In': lambda a, b: a in b, 'NotIn': lambda a, b: a not in b}


def evaluate(node, env):
  if not isinstance(node, list) or not node or not isinstance(node[0], str):
    raise UnknownNode('not a node: %r' % (node,))
  kind = node[0]
  args = node[1:]
  if kind == 'And' or kind == 'Or':
    if len(args) < 2:
      raise UnknownNode('%s with %d values' % (kind, len(args)))
    r = None
    for a in args:
      r = evaluate(a, env)
      if (kind == 'And') != bool(r):      # And stops at the first falsy value, Or at the first truthy one
        return r
    return r
  if kind in _BIN or kind in _CMP:
    if len(args) != 2:
      raise UnknownNode('%s with %d operands' % (kind, len(args)))
    left = evaluate(args[0], env)
    right = evaluate(args[1], env)
    return (_BIN.get(kind) or _CMP[kind])(left, right)
  if kind == 'Not':
    if len(args) != 1:
      raise UnknownNode('Not with %d operands' % len(args))
    return not evaluate(args[0], env)
  if kind == 'List':
    return [evaluate(a, env) for a in args]
  if kind == 'Const':
    if len(args) != 1 or not (args[0] is None or isinstance(args[0], (bool, int, float, str))):
      raise UnknownNode('Const %r' % (args,))
    return args[0]
  if kind == 'Name':
    if len(args) != 1 or not isinstance(args[0], str):
      raise UnknownNode('Name %r' % (args,))
    if args[0] not in env:
      raise NameError(args[0])
    return env[args[0]]
  if kind == 'Attr':
    if len(args) != 2 or not isinstance(args[1], str):
      raise UnknownNode('Attr %r' % (args,))
    return getattr(evaluate(args[0], env), args[1])
  if kind == 'Comment':
    if len(args) != 2 or not isinstance(args[1], str):
      raise UnknownNode('Comment %r' % (args,))
    return evaluate(args[0], env)
  if kind == 'Call':
    if not args:
      raise UnknownNode('Call without function')
    func = evaluate(args[0], env)
    pos = []
    kw = {}
    rest = args[1:]
    for i, a in enumerate(rest):
      if isinstance(a, list) and a and a[0] == 'keywords':
        if i != len(rest) - 1:
          raise UnknownNode('keywords not last')
        for pair in a[1:]:
          if not (isinstance(pair, list) and len(pair) == 2 and isinstance(pair[0], str)):
            raise UnknownNode('keyword pair %r' % (pair,))
          if pair[0] in kw:
            raise UnknownNode('repeated keyword')
          kw[pair[0]] = evaluate(pair[1], env)
      else:
        pos.append(evaluate(a, env))
    return func(*pos, **kw)
  raise UnknownNode('node type %r' % (kind,))


_ARITY = {'Not': 1, 'Const': 1, 'Name': 1, 'Attr': 2, 'Comment': 2}

def validate(node):
  """Raise UnknownNode unless the whole tree is built from the documented node table (independent of
  which parts an evaluation happens to reach)."""
  if not isinstance(node, list) or not node or not isinstance(node[0], str):
    raise UnknownNode('not a node: %r' % (node,))
  kind, args = node[0], node[1:]
  if kind in ('And', 'Or'):
    if len(args) < 2:
      raise UnknownNode('%s with %d values' % (kind, len(args)))
    for a in args:
      validate(a)
  elif kind in _BIN or kind in _CMP:
    if len(args) != 2:
      raise UnknownNode('%s with %d operands' % (kind, len(args)))
    validate(args[0])
    validate(args[1])
  elif kind == 'Not':
    if len(args) != 1:
      raise UnknownNode('Not with %d operands' % len(args))
    validate(args[0])
  elif kind == 'List':
    for a in args:
      validate(a)
  elif kind == 'Const':
    if len(args) != 1 or not (args[0] is None or isinstance(args[0], (bool, int, float, str))):
      raise UnknownNode('Const %r' % (args,))
  elif kind == 'Name':
    if len(args) != 1 or not isinstance(args[0], str):
      raise UnknownNode('Name %r' % (args,))
  elif kind == 'Attr':
    if len(args) != 2 or not isinstance(args[1], str):
      raise UnknownNode('Attr %r' % (args,))
    validate(args[0])
  elif kind == 'Comment':
    if len(args) != 2 or not isinstance(args[1], str):
      raise UnknownNode('Comment %r' % (args,))
    validate(args[0])
  elif kind == 'Call':
    if not args:
      raise UnknownNode('Call without function')
    validate(args[0])
    rest = args[1:]
    for i, a in enumerate(rest):
      if isinstance(a, list) and a and a[0] == 'keywords':
        if i != len(rest) - 1:
          raise UnknownNode('keywords not last')
        for pair in a[1:]:
          if not (isinstance(pair, list) and len(pair) == 2 and isinstance(pair[0], str)):
            raise UnknownNode('keyword pair %r' % (pair,))
          validate(pair[1])
      else:
        validate(a)
  else:
    raise UnknownNode('node type %r' % (kind,))


def outcome(fn):
  """('value', v) or ('raises', ClassName) of a thunk; UnknownNode propagates."""
  try:
    return ('value', fn())
  except UnknownNode:
    raise
  except RecursionError:
    raise
  except Exception as e:      # pylint: disable=broad-except
    return ('raises', type(e).__name__)


def same_value(a, b, lenient=False):
  # lenient: tuples and lists are not distinguished (used where the reference text keeps its tuple displays)
  if lenient and isinstance(a, (list, tuple)) and isinstance(b, (list, tuple)):
    return len(a) == len(b) and all(same_value(x, y, True) for x, y in zip(a, b))
  if type(a) is not type(b):
    return False
  if isinstance(a, float):
    return a == b or (math.isnan(a) and math.isnan(b))
  if isinstance(a, (list, tuple)):
    return len(a) == len(b) and all(same_value(x, y, lenient) for x, y in zip(a, b))
  if isinstance(a, Obj):
    return a is b
  try:
    return bool(a == b)
  except Exception:      # pylint: disable=broad-except
    return a is b


def same_outcome(x, y, lenient=False):
  if x[0] != y[0]:
    return False
  if x[0] == 'raises':
    return x[1] == y[1]
  return same_value(x[1], y[1], lenient)


def strict_json_roundtrip(tree):
  """None if the tree survives strict JSON (what Node's JSON.parse accepts), else a reason."""
  try:
    text = json.dumps(tree, allow_nan=False)
  except (TypeError, ValueError) as e:
    return 'json.dumps: %s' % type(e).__name__
  back = json.loads(text)
  if back != tree or not _same_types(back, tree):
    return 'json round trip changes the tree'
  return None


def _same_types(a, b):
  if isinstance(a, list) and isinstance(b, list):
    return len(a) == len(b) and all(_same_types(x, y) for x, y in zip(a, b))
  if isinstance(a, bool) or isinstance(b, bool):
    return type(a) is type(b)
  if isinstance(a, (int, float)) and isinstance(b, (int, float)):
    return True
  return type(a) is type(b)


# ----------------------------------------------------------------------------------------------
# Non-subset syntax
NONSUBSET = [
  # (name, template) with {e} {e2} {e3} subset sub-expressions (rendered atom-safe in parentheses)
  ('unary_minus', '-{e}'), ('unary_plus', '+{e}'), ('invert', '~{e}'),
  ('pow', '{e} ** {e2}'), ('floordiv', '{e} // {e2}'), ('bitor', '{e} | {e2}'), ('bitand', '{e} & {e2}'),
  ('bitxor', '{e} ^ {e2}'), ('lshift', '{e} << {e2}'), ('rshift', '{e} >> {e2}'), ('matmul', '{e} @ {e2}'),
  ('chain_lt', '{e} < {e2} < {e3}'), ('chain_eq', '{e} == {e2} == {e3}'), ('chain_in', '{e} < {e2} in {e3}'),
  ('ifexp', '{e} if {e2} else {e3}'), ('lambda0', 'lambda: {e}'), ('lambda1', '(lambda x: x)({e})'),
  ('subscript', '{e}[0]'), ('slice', '{e}[1:2]'), ('subscript_str', "{e}['k']"),
  ('dict_empty', '{{}}'), ('dict', "{{'a': {e}}}"), ('set', '{{{e}, {e2}}}'),
  ('listcomp', '[x for x in {e}]'), ('genexp', '(x for x in {e})'), ('dictcomp', '{{x: 1 for x in {e}}}'),
  ('setcomp', '{{x for x in {e}}}'),
  ('fstring', "f'{{{e}}}'"), ('fstring_plain', "f'abc' == {e}"),
  ('star_arg', 'f(*{e})'), ('star_list', '[*{e}]'),
  ('walrus', '(y := {e})'), ('await', 'await {e}'), ('yield', '(yield {e})'),
  ('assign', 'x = {e}'), ('two_statements', '{e}; {e2}'), ('import', 'import os'), ('semicolon', '{e};'),
  ('backtick', '`{e}`'), ('ne_old', '{e} <> {e2}'), ('print_stmt', 'print {e}'), ('dollar_alone', '$ == {e}'),
  ('dollar_digit', '$1 == {e}'), ('double_dollar', '$$a == {e}'), ('unclosed', '({e}'), ('trailing_op', '{e} and'),
  ('empty', ''), ('blank', '   '), ('only_comment', '# {e}'), ('colon', '{e}: {e2}'),
]
# Triggers of listed findings (kept out of the main stream; see props/C40.py)
TRIGGERS = [
  ('bytes_const', "b'x' == {e}"), ('bytes_const_in', "{e} in [b'a', 'a']"), ('complex_const', '1j'), ('complex_const_add', '{e} + 2j'),
  ('ellipsis_const', '...'), ('ellipsis_in_list', '[..., {e}]'), ('inf_const', '1e999 > {e}'), ('inf_const_neg', '{e} < 1e400'),
  ('kwargs_splat', 'f(**{e})'), ('kwargs_splat_mixed', 'f({e}, k=1, **{e2})'),
]

SOUP = ['and', 'or', 'not', 'in', 'is', '==', '!=', '<', '>', '<=', '>=', '+', '-', '*', '/', '%', '(', ')', '[', ']', ',', '.',
        '$a', '$b', 'rec', 'user', 'rec.a', 'user.s', '1', '2.5', "'a'", '"b"', 'None', 'True', 'f', '#', ':', '{', '}', '**', '//',
        'lambda', 'if', 'else', 'for', '=', '$', '\n', '\\', '@', '~', '|', '&', ';', 'await', '!', '?']
SOUP_TRIGGERS = ['...', '1j', "b'x'", '1e999', '**']


def atomic(text):
  return '(' + text + ')'
