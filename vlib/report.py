"""
Per-shard violation reporting that cannot be flooded.

vlib.shard.Acc keeps the first 12 violations of a shard. A check whose random stream keeps hitting the mechanism of an
open finding (classified to the finding's key) would fill those 12 slots and a different, unlisted violation found later
in the same shard would be dropped. Dedup reports at most `per_mech` violations per mechanism key and only counts the rest,
so every distinct mechanism of a shard gets a slot.
"""


class Dedup(object):
  def __init__(self, acc, per_mech=2):
    self.acc = acc
    self.per_mech = per_mech
    self.n = {}

  def admit(self, mech):
    """True if a violation of this mechanism should still be listed (the caller then reports it); counts it otherwise."""
    k = self.n.get(mech, 0)
    self.n[mech] = k + 1
    if k < self.per_mech:
      return True
    self.acc.count('violations_raw')
    self.acc.count('violations_not_listed_again_same_mechanism')
    return False

  def violation(self, mech, summary, detail=None):
    if self.admit(mech):
      self.acc.violation(mech, summary, detail)


def dedup(acc, per_mech=2):
  """The Dedup attached to acc (one per shard)."""
  d = getattr(acc, '_dedup', None)
  if d is None:
    d = Dedup(acc, per_mech)
    acc._dedup = d
  return d
