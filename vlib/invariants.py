"""
Snapshot-level invariant oracles (C08 parts, C09, C10, C11, C12, C20 column part).
They read the document as reported by the engine (snapshots), never the engine's own assertions.
Each returns a list of (mech, message) pairs; empty = holds.
"""
import itertools
from vlib.snapshot import rows_of, NAN


def dec_list(v):
  """encoded list ['L', ...] -> list ; None -> None ; anything else -> ('ALT', v)"""
  if v is None:
    return None
  if isinstance(v, list) and v and v[0] == 'L':
    return v[1:]
  return ('ALT', v)


def is_num(v):
  return isinstance(v, (int, float)) and not isinstance(v, bool)


def colmeta(snap):
  """{(tableId, colId): column record + ref} for columns whose table record exists."""
  T = rows_of(snap, '_grist_Tables')
  C = rows_of(snap, '_grist_Tables_column')
  out = {}
  for r, c in C.items():
    if c['parentId'] in T:
      out[(T[c['parentId']]['tableId'], c['colId'])] = dict(c, ref=r)
  return out


def summaries_with_error_keys(snap):
  """
  Summary tables one of whose group-by source columns holds an error value in some source row: the
  trigger state of the open finding C05/summary_rows_with_error_keys (the live engine keeps the
  summary rows of keys that turned into errors, a fresh engine has none; a later rollback, undo or
  table removal then "corrects" them). Returns the set of summary table ids.
  """
  T = rows_of(snap, '_grist_Tables')
  C = rows_of(snap, '_grist_Tables_column')
  out = set()
  for tr, t in T.items():
    st = t.get('summarySourceTable')
    if not st or st not in T:
      continue
    src = T[st]['tableId']
    if src not in snap:
      continue
    for c in C.values():
      sc = c.get('summarySourceCol')
      if c['parentId'] == tr and sc and sc in C:
        vals = snap[src][1].get(C[sc]['colId'])
        if vals and any(isinstance(v, list) and v and v[0] == 'E' for v in vals):
          out.add(t['tableId'])
  return out


def triggers_on_error_cells(snap):
  """
  Trigger-formula columns (data columns with a formula and recalcDeps) one of whose dependencies is
  a formula column holding error values: the trigger state of the open finding
  C01/trigger_on_error_cells (an error cell counts as changed whenever it is recomputed, so such a
  trigger formula fires or not depending on whether its dependency edges happen to be in place).
  Returns the set of (table id, column id).
  """
  T = rows_of(snap, '_grist_Tables')
  C = rows_of(snap, '_grist_Tables_column')
  out = set()
  for c in C.values():
    deps = c.get('recalcDeps')
    if c.get('isFormula') or not c.get('formula') or not isinstance(deps, list) or c['parentId'] not in T:
      continue
    tid = T[c['parentId']]['tableId']
    for d in deps[1:]:
      dc = C.get(int(d)) if isinstance(d, (int, float)) and not isinstance(d, bool) else None
      if not dc or not dc.get('isFormula') or dc['parentId'] not in T:
        continue
      dt = T[dc['parentId']]['tableId']
      vals = snap.get(dt, ([], {}))[1].get(dc['colId'])
      if vals and any(isinstance(v, list) and v and v[0] == 'E' for v in vals):
        out.add((tid, c['colId']))
  return out


def self_lookup_columns(snap):
  """
  Formula columns whose formula looks records up in their own table by the column itself (directly, e.g.
  B = T.lookupOne(B=$K).K, or by another formula column of the table that reads the column): the
  trigger state of the open finding C05/cycle_detection_incremental_vs_scratch (whether such a cell
  holds a value or CircularRefError depends on which cells happened to be dirty, so a later full
  recalculation - which undo, redo, rollback or reload cause - changes it). Returns {(table, col)}.
  """
  import re
  T = rows_of(snap, '_grist_Tables')
  C = rows_of(snap, '_grist_Tables_column')
  by_table = {}
  for c in C.values():
    if c['parentId'] in T:
      by_table.setdefault(T[c['parentId']]['tableId'], []).append(c)
  out = set()
  for tid, cols in by_table.items():
    fcols = {c['colId']: (c.get('formula') or '') for c in cols if c.get('isFormula') and c.get('formula')}
    for cid, f in fcols.items():
      m = re.findall(r'\b%s\.lookup(?:Records|One)\(((?:[^()]|\([^()]*\))*)\)' % re.escape(tid), f)
      for args in m:
        for k in re.findall(r'\b([A-Za-z_][A-Za-z0-9_]*)\s*=(?!=)', args):
          if k == cid:
            out.add((tid, cid))
          elif k in fcols and re.search(r'(\$|\.)%s\b' % re.escape(cid), fcols[k]):
            out.add((tid, cid))
  return out


def open_finding_triggers(snap):
  """Names of the open findings whose trigger state the document is in (DESIGN.md 3.6)."""
  out = []
  if self_lookup_columns(snap):
    out.append('cycle_detection_incremental_vs_scratch')
  if summaries_with_error_keys(snap):
    out.append('summary_rows_with_error_keys')
  if triggers_on_error_cells(snap):
    out.append('trigger_on_error_cells')
  return out


# ------------------------------------------------------------------------------------------ C09
def c09(snap, details=None):
  """details: optional list that receives, per message, a dict naming the record ({'field': id}, ...)."""
  msgs = []
  def bad(mech, msg, **info):
    msgs.append((mech, msg))
    if details is not None:
      details.append(info)
  T = rows_of(snap, '_grist_Tables')
  C = rows_of(snap, '_grist_Tables_column')
  V = rows_of(snap, '_grist_Views')
  S = rows_of(snap, '_grist_Views_section')
  F = rows_of(snap, '_grist_Views_section_field')
  P = rows_of(snap, '_grist_Pages')
  B = rows_of(snap, '_grist_TabBar')
  for r, c in C.items():
    if c['parentId'] not in T:
      bad('col.parentId', 'column #%s (%s) belongs to missing table #%s' % (r, c['colId'], c['parentId']))
    for k in ('displayCol', 'visibleCol', 'summarySourceCol', 'reverseCol'):
      if c[k] and c[k] not in C:
        bad('col.' + k, 'column #%s.%s -> missing column #%s' % (r, k, c[k]))
    rl = dec_list(c['rules'])
    for x in (rl if isinstance(rl, list) else []):
      if x not in C:
        bad('col.rules', 'column #%s rules -> missing column #%s' % (r, x))
  for r, f in F.items():
    if f['parentId'] not in S:
      bad('field.parentId', 'field #%s in missing section #%s' % (r, f['parentId']))
      continue
    if f['colRef'] not in C:
      bad('field.colRef', 'field #%s -> missing column #%s' % (r, f['colRef']), field=r)
      continue
    sec = S[f['parentId']]
    if sec['tableRef'] and C[f['colRef']]['parentId'] != sec['tableRef']:
      bad('field.colRef.table', 'field #%s shows column #%s of table #%s in a section of table #%s' % (
          r, f['colRef'], C[f['colRef']]['parentId'], sec['tableRef']), field=r)
    for k in ('displayCol', 'visibleCol'):
      if f[k] and f[k] not in C:
        bad('field.' + k, 'field #%s.%s -> missing column #%s' % (r, k, f[k]))
    rl = dec_list(f['rules'])
    for x in (rl if isinstance(rl, list) else []):
      if x not in C:
        bad('field.rules', 'field #%s rules -> missing column #%s' % (r, x))
  for r, s in S.items():
    if s['tableRef'] not in T:
      bad('section.tableRef', 'section #%s -> missing table #%s' % (r, s['tableRef']))
    if s['parentId'] and s['parentId'] not in V:
      bad('section.parentId', 'section #%s -> missing view #%s' % (r, s['parentId']))
    rl = dec_list(s['rules'])
    for x in (rl if isinstance(rl, list) else []):
      if x not in C:
        bad('section.rules', 'section #%s rules -> missing column #%s' % (r, x))
  for r, t in T.items():
    if not t['rawViewSectionRef'] or t['rawViewSectionRef'] not in S:
      bad('table.rawViewSectionRef', 'table #%s (%s) raw section #%s missing' % (r, t['tableId'], t['rawViewSectionRef']))
    if t['recordCardViewSectionRef'] and t['recordCardViewSectionRef'] not in S:
      bad('table.recordCardViewSectionRef', 'table #%s record card section missing' % r)
    if t['primaryViewId'] and t['primaryViewId'] not in V:
      bad('table.primaryViewId', 'table #%s primary view #%s missing' % (r, t['primaryViewId']))
    if t['summarySourceTable'] and t['summarySourceTable'] not in T:
      bad('table.summarySourceTable', 'summary table #%s source #%s missing' % (r, t['summarySourceTable']))
  for r, p in P.items():
    if p['viewRef'] not in V:
      bad('page.viewRef', 'page #%s -> missing view #%s' % (r, p['viewRef']))
  for r, b in B.items():
    if b['viewRef'] not in V:
      bad('tabbar.viewRef', 'tab #%s -> missing view #%s' % (r, b['viewRef']))
  used_disp = set(c['displayCol'] for c in C.values()) | set(f['displayCol'] for f in F.values())
  used_rule = set()
  for c in C.values():
    rl = dec_list(c['rules'])
    used_rule.update(rl if isinstance(rl, list) else [])
  for f in F.values():
    rl = dec_list(f['rules'])
    used_rule.update(rl if isinstance(rl, list) else [])
  used_rowrule = set()
  for s in S.values():
    rl = dec_list(s['rules'])
    used_rowrule.update(rl if isinstance(rl, list) else [])
  for r, c in C.items():
    cid = c['colId'] or ''
    if cid.startswith('gristHelper_Display') and r not in used_disp:
      bad('helper.display.unused', 'display helper column #%s (%s) is used by nothing' % (r, cid))
    if cid.startswith('gristHelper_ConditionalRule') and r not in used_rule:
      bad('helper.rule.unused', 'rule helper column #%s (%s) is used by nothing' % (r, cid))
    if cid.startswith('gristHelper_RowConditionalRule') and r not in used_rowrule:
      bad('helper.rowrule.unused', 'row rule helper column #%s (%s) is used by nothing' % (r, cid))
  tids = [t['tableId'] for t in T.values()]
  for t in snap:
    if not t.startswith('_grist_') and tids.count(t) != 1:
      bad('table.records', 'table %s has %d metadata records' % (t, tids.count(t)))
  for t in T.values():
    if t['tableId'] not in snap:
      bad('table.missing', 'metadata record for table %s which the engine does not have' % t['tableId'])
  return msgs


# ------------------------------------------------------------------------------------------ C10
def removed_rows(S0, S1):
  removed = {}
  for t in S0:
    if t in S1:
      d = set(S0[t][0]) - set(S1[t][0])
    else:
      d = set(S0[t][0])
    if d:
      removed[t] = d
  return removed


def meta_types_from_schema(schema):
  """verif_schema()['schema'] -> {metadata table: {col: type}} (metadata tables have no column records)."""
  return {t: {c[0]: c[1] for c in cols if not c[2]} for t, cols in schema.items() if t.startswith('_grist_')}


def ref_columns(snap, meta_types=None):
  """
  Every data (non-formula) Ref / RefList column of the document: {(table, col): info} with
  info = {'type', 'base', 'target', 'formula', 'refires', 'reverse': (t, c) or None,
          'summary_source': (t, c) or None}. `refires`: the column has a trigger formula that runs
  again on updates of its record (recalcWhen 2 or recalcDeps), so what it holds after a bundle that
  touched its record is whatever that formula says.
  """
  out = {}
  meta = colmeta(snap)
  byref = {m['ref']: k for k, m in meta.items()}
  for (t, c), m in meta.items():
    base, _, tgt = (m['type'] or '').partition(':')
    if m['isFormula'] or base not in ('Ref', 'RefList') or t not in snap or c not in snap[t][1]:
      continue
    deps = dec_list(m.get('recalcDeps'))
    out[(t, c)] = {'type': m['type'], 'base': base, 'target': tgt, 'formula': m['formula'] or '',
                   'refires': bool(m['formula']) and (m.get('recalcWhen') == 2 or bool(isinstance(deps, list) and deps)),
                   'reverse': byref.get(m['reverseCol']) if m['reverseCol'] else None,
                   'summary_source': byref.get(m['summarySourceCol']) if m['summarySourceCol'] else None}
  for t, cols in (meta_types or {}).items():
    if t not in snap:
      continue
    for c, typ in cols.items():
      base, _, tgt = typ.partition(':')
      if base in ('Ref', 'RefList') and c in snap[t][1]:
        out[(t, c)] = {'type': typ, 'base': base, 'target': tgt, 'formula': '', 'refires': False,
                       'reverse': None, 'summary_source': None}
  return out


def close_written(cols, refcols):
  """Closure of a set of written (table, col): two-way partners and summary group-by copies are written too."""
  out = set(cols)
  changed = True
  while changed:
    changed = False
    for k, info in refcols.items():
      if k in out:
        if info['reverse'] and info['reverse'] not in out:
          out.add(info['reverse']); changed = True
      else:
        if (info['reverse'] in out) or (info['summary_source'] in out):
          out.add(k); changed = True
  return out


def c10(S0, S1, written_after=(), written_any=(), judge_rest=True, meta_types=None, stats=None, reused_targets=()):
  """
  No data Ref / RefList cell refers to a row removed between S0 and S1; a RefList cell equals its old
  list without the removed ids (None when nothing remains).
    written_after: columns that an action *after* the first removing action of the bundle may have
                   written (a later write may legitimately name a row that is gone): not judged at all;
    written_any:   columns written anywhere in the bundle: the comparison with the old list is void;
    judge_rest:    False when the bundle contains writers whose columns cannot be told;
    reused_targets: tables to which the bundle also added records: a removed row id may have been given
                   to a new record, so which ids went away cannot be told from the snapshots and the
                   comparison with the old list is void for columns pointing at such a table.
  Wrong-typed cells (alt text) and formula columns are ignored. Returns (msgs, cells checked).
  """
  msgs = []
  if stats is None:
    stats = {}
  def cnt(k, n=1):
    stats[k] = stats.get(k, 0) + n
  removed = removed_rows(S0, S1)
  if not removed:
    return msgs, 0
  rc1 = ref_columns(S1, meta_types)
  rc0 = ref_columns(S0, meta_types)
  written_after = close_written(written_after, rc1)
  written_any = close_written(set(written_any) | written_after, rc1)
  checked = 0
  for (t, c), info in sorted(rc1.items()):
    tgt, base = info['target'], info['base']
    if tgt not in removed:
      continue
    if info['refires']:
      cnt('skipped.refiring_trigger_column')
      continue
    if (t, c) in written_after:
      cnt('skipped.column_written_after_removal')
      continue
    gone = removed[tgt]
    old = None
    i0 = rc0.get((t, c))
    if tgt in reused_targets:
      cnt('skipped.rest_of_list.target_row_ids_may_be_reused')
    elif judge_rest and (t, c) not in written_any and i0 and i0['type'] == info['type'] and not i0['refires']:
      old = dict(zip(S0[t][0], S0[t][1][c]))
    for r, v in zip(S1[t][0], S1[t][1][c]):
      checked += 1
      if base == 'Ref':
        if is_num(v) and v in gone:
          msgs.append(('ref.dangling', '%s.%s[%s] still points at removed %s[%s]' % (t, c, r, tgt, v)))
        continue
      l = dec_list(v)
      if isinstance(l, list) and any(is_num(x) and x in gone for x in l):
        msgs.append(('reflist.dangling', '%s.%s[%s] = %s still contains a removed %s row' % (t, c, r, l, tgt)))
        continue
      if old is None or r not in old:
        continue
      lo = dec_list(old[r])
      if not isinstance(lo, list):
        continue      # was None or alt text: nothing to keep
      if any(is_num(x) and x in gone for x in lo):
        exp = [x for x in lo if not (is_num(x) and x in gone)] or None
        cnt('reflist_cells_that_held_removed_ids')
        if l != exp:
          msgs.append(('reflist.rest', '%s.%s[%s]: was %s, removed %s, now %s (expected %s)' % (
              t, c, r, lo, sorted(gone), v, exp)))
      elif old[r] != v:
        msgs.append(('reflist.untouched', '%s.%s[%s] changed from %s to %s though it held no removed row' % (
            t, c, r, old[r], v)))
  return msgs, checked


# ------------------------------------------------------------------------------------------ C11
def is_row_id(v):
  return is_num(v) and v == int(v)


def ref_cell_targets(v, base):
  """Row ids a reference cell refers to, or None if the cell does not hold a value of the column's
  type (alt text, a list in a Ref column, a list with a non-id element, a fractional number)."""
  if base == 'Ref':
    if is_row_id(v):
      return [int(v)] if v else []
    return None
  l = dec_list(v)
  if l is None:
    return []
  if isinstance(l, list) and all(is_row_id(x) for x in l):
    return [int(x) for x in l]
  return None


def two_way_pairs(S1):
  """-> (pairs, problems): pairs = list of ((t, c), (t2, c2)) mutually linked reference columns (each
  pair once), problems = messages about links that are dangling or not mutual."""
  meta = colmeta(S1)
  byref = {m['ref']: k for k, m in meta.items()}
  pairs, problems = [], []
  for (t, c), m in sorted(meta.items()):
    if not m['reverseCol']:
      continue
    if m['reverseCol'] not in byref:
      problems.append(('reverse.dangling', '%s.%s reverseCol -> missing column' % (t, c)))
      continue
    (t2, c2) = byref[m['reverseCol']]
    if meta[(t2, c2)]['reverseCol'] != m['ref']:
      problems.append(('reverse.notmutual', '%s.%s <-> %s.%s not mutual' % (t, c, t2, c2)))
      continue
    if ((t2, c2), (t, c)) not in pairs:
      pairs.append(((t, c), (t2, c2)))
  return pairs, problems


def c11(S1, details=None):
  """
  Two-way references are symmetric: for every linked pair, {(a, b) | b in cell(a)} equals the inverse of
  the partner's relation, over cells that hold values of the column's type and rows that exist.
  details: optional list receiving, per message, {'pair': ((t, c), (t2, c2))} or {}.
  Returns (msgs, n) with n = pairs + related cells compared.
  """
  msgs = []
  meta = colmeta(S1)
  pairs, problems = two_way_pairs(S1)
  for pr in problems:
    msgs.append(pr)
    if details is not None:
      details.append({})
  n = 0
  for (t, c), (t2, c2) in pairs:
    ma, mb = meta[(t, c)], meta[(t2, c2)]
    if t not in S1 or t2 not in S1 or c not in S1[t][1] or c2 not in S1[t2][1]:
      continue
    if ma['isFormula'] or mb['isFormula']:
      continue
    ba, _, ta = (ma['type'] or '').partition(':')
    bb, _, tb = (mb['type'] or '').partition(':')
    if ba not in ('Ref', 'RefList') or bb not in ('Ref', 'RefList') or ta != t2 or tb != t:
      continue     # linked columns that are not references to each other's tables: the statement is about reference cells
    def rel(t, c, base):
      out = set()
      for r, v in zip(S1[t][0], S1[t][1][c]):
        tg = ref_cell_targets(v, base)
        if tg:
          out.update((r, x) for x in tg)
      return out
    rowsA = set(S1[t][0])
    rowsB = set(S1[t2][0])
    A = {(a, b) for (a, b) in rel(t, c, ba) if b in rowsB}
    Bi = {(b, a) for (a, b) in rel(t2, c2, bb) if b in rowsA}
    n += len(A) + 1
    if A != Bi:
      msgs.append(('asymmetric', '%s.%s vs %s.%s: only forward %s | only backward %s' % (
          t, c, t2, c2, sorted(A - Bi)[:4], sorted(Bi - A)[:4])))
      if details is not None:
        details.append({'pair': ((t, c), (t2, c2)), 'only_forward': sorted(A - Bi), 'only_backward': sorted(Bi - A),
                        'bases': (ba, bb)})
  return msgs, n


# ------------------------------------------------------------------------------------------ C12
LOOKUP_OPTION_NAMES = ('order_by', 'sort_by')


def is_error(v):
  return isinstance(v, list) and len(v) > 0 and v[0] == 'E'


def c12_key_part(v, typ):
  """
  One component of a group-by key as the statement counts keys: by the *value the cell denotes*.
  A Date cell denotes a calendar day (the engine hands formulas a date object), so any timestamp of
  that day is the same key; -0.0 is 0.0. Everything else is the encoded value as it is.
  """
  if is_num(v):
    if typ == 'Date' and v == v and abs(v) < 1e14:
      return float((v // 86400) * 86400)
    return 0.0 if v == 0 else v
  return v


def c12(S1, stats=None):
  """
  Summary tables are exact group-bys. Returns (msgs, n_summary_rows_checked).
  Mechanism keys: missing_row / extra_row / duplicate_key / group, and the two mechanisms of open
  findings: negative_ref_key_without_summary_row (a source row whose Ref/RefList group-by cell holds a
  negative id is reported apart, so that it cannot hide other missing keys) and
  groupby_column_named_like_lookup_option (everything reported for a summary table one of whose
  group-by columns is called order_by / sort_by).
  Cases the statement does not decide are skipped and counted in `stats`.
  """
  msgs = []
  if stats is None:
    stats = {}
  def skip(why):
    stats['skipped.' + why] = stats.get('skipped.' + why, 0) + 1
  T = rows_of(S1, '_grist_Tables')
  C = rows_of(S1, '_grist_Tables_column')
  nrows = 0
  for tr, t in T.items():
    if not t['summarySourceTable'] or t['summarySourceTable'] not in T:
      continue
    src = T[t['summarySourceTable']]['tableId']
    st = t['tableId']
    gcols = [(c['colId'], C[c['summarySourceCol']]['colId'], C[c['summarySourceCol']]['type'])
             for c in C.values()
             if c['parentId'] == tr and c['summarySourceCol'] and c['summarySourceCol'] in C]
    gcols.sort()
    if st not in S1 or src not in S1:
      continue
    grp = [c for c in C.values() if c['parentId'] == tr and c['colId'] == 'group']
    if ('group' not in S1[st][1] or not grp or not grp[0]['isFormula'] or
        'getSummarySourceGroup' not in (grp[0]['formula'] or '') or grp[0]['type'] != 'RefList:' + src):
      skip('group_column_changed')     # no longer what the engine recognises as a summary table
      continue
    srows = rows_of(S1, src)
    strows = rows_of(S1, st)
    if any(sc not in S1[src][1] or gc not in S1[st][1] for (gc, sc, typ) in gcols):
      skip('groupby_column_not_in_snapshot')
      continue
    # Values that Python hashes equal but that are of different kinds (True and 1, False and 0): the
    # statement does not say whether they are one key or two.
    mixed = False
    for (gc, sc, typ) in gcols:
      vals = []
      for r in srows:
        v = srows[r][sc]
        l = dec_list(v)
        vals.extend(l if isinstance(l, list) else [v])
      bools = set(x for x in vals if isinstance(x, bool))
      if any(is_num(x) and x in (0, 1) and bool(x) in bools for x in vals):
        mixed = True
    if mixed:
      skip('bool_and_number_keys_mixed')
      continue
    if any(is_error(srows[r][sc]) for r in srows for (gc, sc, typ) in gcols):
      skip('error_in_groupby_cell')    # rows with error keys are outside the statement (and C05's open finding)
      continue
    # Values the wire format cannot carry faithfully (['U', repr] of an arbitrary object, pending / censored
    # markers) or that cannot be keys at all (['O', dict]): equal encodings need not be equal values.
    def opaque(v):
      return isinstance(v, list) and len(v) > 0 and v[0] in ('U', 'P', 'C', 'S', 'O', 'E')
    if any(opaque(srows[r][sc]) for r in srows for (gc, sc, typ) in gcols) or \
       any(opaque(strows[r][gc]) for r in strows for (gc, sc, typ) in gcols):
      skip('opaque_value_in_groupby_cell')
      continue
    # A list held by a column that is not of a list type (possible in Any columns): the statement defines
    # list-valued cells for Choice List / Reference List group-bys only.
    if any(isinstance(srows[r][sc], list) for r in srows for (gc, sc, typ) in gcols
           if not (typ == 'ChoiceList' or typ.startswith('RefList:'))):
      skip('list_in_scalar_groupby_column')
      continue
    named_like_option = any(gc in LOOKUP_OPTION_NAMES or sc in LOOKUP_OPTION_NAMES for (gc, sc, typ) in gcols)
    for (gc, sc, typ) in gcols:
      k = 'judged_groupby.' + typ.split(':')[0]
      stats[k] = stats.get(k, 0) + 1
    if not gcols:
      stats['judged_groupby.(none)'] = stats.get('judged_groupby.(none)', 0) + 1
    def mech_of(m):
      return 'groupby_column_named_like_lookup_option' if named_like_option else m
    expected = {}
    negative = {}
    for r in sorted(srows):
      comps = []
      neg = False
      for (gc, sc, typ) in gcols:
        v = srows[r][sc]
        if typ == 'ChoiceList' or typ.startswith('RefList:'):
          l = dec_list(v)
          if l is None or l == []:
            comps.append(['' if typ == 'ChoiceList' else 0.0])
          elif isinstance(l, list):
            seen = []
            for x in l:
              x = c12_key_part(x, typ)
              if x not in seen:
                seen.append(x)
            comps.append(seen)
          else:
            comps.append([])      # a non-list value in a list column contributes no key
        else:
          comps.append([c12_key_part(v, typ)])
        if typ.startswith(('Ref:', 'RefList:')) and any(is_num(x) and x < 0 for x in comps[-1]):
          neg = True
      for key in itertools.product(*comps):
        isneg = neg and any(is_num(x) and x < 0 and typ.startswith(('Ref:', 'RefList:'))
                            for x, (gc, sc, typ) in zip(key, gcols))
        (negative if isneg else expected).setdefault(repr(list(key)), []).append(float(r))
    got = {}
    for r, row in strows.items():
      key = repr([c12_key_part(row[gc], typ) for (gc, sc, typ) in gcols])
      nrows += 1
      if key in got:
        msgs.append((mech_of('duplicate_key'), '%s has two rows with key %s' % (st, key)))
      got[key] = row.get('group')
    by = [g[1] for g in gcols]
    negmiss = sorted(set(negative) - set(got))
    if negmiss:
      msgs.append((mech_of('negative_ref_key_without_summary_row'),
                   '%s (by %s of %s): no row for keys %s, which hold a negative id in a reference column' % (
                       st, by, src, negmiss[:3])))
    for k in set(negative) & set(got):
      expected[k] = negative[k]
    if set(got) != set(expected):
      miss = sorted(set(expected) - set(got))[:3]
      extra = sorted(set(got) - set(expected))[:3]
      mech = 'missing_row' if miss else 'extra_row'
      msgs.append((mech_of(mech), '%s (by %s of %s): missing keys %s, extra keys %s' % (st, by, src, miss, extra)))
    for k in sorted(set(got) & set(expected)):
      g = dec_list(got[k])
      if g != expected[k]:
        msgs.append((mech_of('group'), '%s group of key %s is %s, source rows with that key are %s' % (st, k, g, expected[k])))
  return msgs, nrows


# ------------------------------------------------------------------------------------------ C20
def positions_distinct(S1):
  msgs = []
  n = 0
  meta = colmeta(S1)
  for (t, c), m in meta.items():
    if m['type'] in ('PositionNumber', 'ManualSortPos') and not m['isFormula'] and t in S1 and c in S1[t][1]:
      vals = S1[t][1][c]
      n += len(vals)
      nums = [v for v in vals if is_num(v)]
      if len(set(nums)) != len(nums):
        dup = sorted(v for v in set(nums) if nums.count(v) > 1)[:3]
        msgs.append(('position.duplicate', '%s.%s holds duplicate positions %s' % (t, c, dup)))
      if any(v in (float('inf'), float('-inf')) or v == NAN for v in vals):
        msgs.append(('position.nonfinite', '%s.%s holds a non-finite position' % (t, c)))
  # metadata position columns
  for t, cols in (('_grist_Tables_column', ['parentPos']), ('_grist_Views_section_field', ['parentPos']),
                  ('_grist_Pages', ['pagePos']), ('_grist_TabBar', ['tabPos']),
                  ('_grist_TableViews', []), ('_grist_Views_section', [])):
    if t not in S1:
      continue
    for c in cols:
      vals = S1[t][1].get(c)
      if vals is None:
        continue
      n += len(vals)
      if t in ('_grist_Pages', '_grist_TabBar'):
        groups = {'': vals}
      else:
        par = S1[t][1]['parentId']
        groups = {}
        for p, v in zip(par, vals):
          groups.setdefault(p, []).append(v)
      for g, vs in groups.items():
        nums = [v for v in vs if is_num(v)]
        if len(set(nums)) != len(nums):
          msgs.append(('position.duplicate.meta', '%s.%s (parent %s) holds duplicate positions' % (t, c, g)))
  return msgs, n
