"""
Naive reference models for lookupRecords / lookupOne (C13) and for find.* / PREVIOUS / NEXT / RANK
(C14). Everything here works on *snapshot* values (vlib/snapshot.py: encoded cells, numbers
normalised to float, bool kept, lists as ['L', ...], formula errors as ['E', name, ...], alt text in
a typed column as a plain string) and on probe *specs* (plain dicts, see formula_of()). Nothing is
imported from the repository: filters are linear scans, orders are comparator sorts.

Vocabulary of a lookup spec
  {'table': 'T', 'kind': 'records' | 'one',
   'keys': [{'col': 'A', 'src': 'K1' | {'lit': <python literal>}, 'contains': bool,
             'match_empty': <value> (only when given)}, ...],
   'order': None | {'order_by': None | 'A' | '-A' | 'id' | [..]} | {'sort_by': 'A' | '-A'}}
"""
import functools

SKIP = 'skip'          # the statement does not constrain this case
AMBIGUOUS = None       # equality of a bool with an equal number (True == 1 in Python): not judged


def base_type(t):
  return (t or 'Any').split(':')[0]


def is_err(v):
  return isinstance(v, list) and len(v) > 0 and v[0] == 'E'


def is_list(v):
  return isinstance(v, list) and len(v) > 0 and v[0] == 'L'


def is_num(v):
  return isinstance(v, (int, float))          # bool included (a Number in Python)


def is_plain(v):
  return v is None or isinstance(v, (bool, int, float, str)) or is_list(v)


# ------------------------------------------------------------------------------------------------
# Equality of two raw values (cell vs type-converted key). Returns True / False / AMBIGUOUS.
def equal(a, b):
  if a is None or b is None:
    return a is None and b is None
  if isinstance(a, bool) and isinstance(b, bool):
    return a == b
  if isinstance(a, bool) or isinstance(b, bool):
    if is_num(a) and is_num(b):
      return AMBIGUOUS if float(a) == float(b) else False
    return False
  if is_num(a) and is_num(b):
    return float(a) == float(b)
  if isinstance(a, str) and isinstance(b, str):
    return a == b
  if is_list(a) and is_list(b):
    if len(a) != len(b):
      return False
    res = True
    for x, y in zip(a[1:], b[1:]):
      e = equal(x, y)
      if e is False:
        return False
      if e is AMBIGUOUS:
        res = AMBIGUOUS
    return res
  return False


def contains(cell, key):
  """key in <list cell>: True / False / AMBIGUOUS."""
  res = False
  for x in cell[1:]:
    e = equal(x, key)
    if e is True:
      return True
    if e is AMBIGUOUS:
      res = AMBIGUOUS
  return res


LIST_TYPES = ('ChoiceList', 'RefList')


def match_rows(rows, coltypes, keyspecs, keyvals):
  """
  rows: {row_id: {col: value}} of the target table; keyspecs: spec['keys']; keyvals: for each key
  the value the row's cell is compared with (type-converted for equality keys, as passed for
  CONTAINS). Returns (sorted list of matching row ids, None) or (None, reason-to-skip).
  """
  # Cases the statement does not speak about are recognised before any row is looked at.
  for ks, kv in zip(keyspecs, keyvals):
    if is_err(kv) or not is_plain(kv):
      return None, 'error_or_exotic_value'
    ctype = base_type(coltypes.get(ks['col']))
    if ks['col'] not in coltypes:
      return None, 'no_such_column'
    if ks.get('contains'):
      if ctype not in LIST_TYPES:
        return None, 'contains_on_non_list_column'
      if is_list(kv):
        return None, 'list_key'
    elif ctype == 'RefList' or (is_list(kv) and ctype != 'ChoiceList'):
      return None, 'unhashable_key'
  out = []
  ambiguous = False
  for rid in sorted(rows):
    row = rows[rid]
    ok = True
    for ks, kv in zip(keyspecs, keyvals):
      if ks['col'] not in row:
        return None, 'no_such_column'
      cell = row[ks['col']]
      if is_err(cell) or not is_plain(cell):
        return None, 'error_or_exotic_value'
      if ks.get('contains'):
        if is_list(cell) and len(cell) > 1:
          m = contains(cell, kv)
        elif cell is None or is_list(cell):
          # an empty cell matches only the declared match_empty value
          m = equal(ks['match_empty'], kv) if 'match_empty' in ks else False
        else:
          m = False          # alt text in a list column: strings are never iterated
      else:
        m = equal(cell, kv)
      if m is AMBIGUOUS:
        ambiguous = True
      elif not m:
        ok = False
        break
    if ok and ambiguous:
      return None, 'bool_number_ambiguity'
    ambiguous = False
    if ok:
      out.append(rid)
  return out, None


# ------------------------------------------------------------------------------------------------
# Order specification -> list of (col, sign) followed by the implicit row id.
def order_columns(order, has_manual_sort):
  """The documented rule: order_by columns ('-' = descending), then manualSort when the table has
  it and 'id' was not named, then row id; sort_by = that column then row id; no order = row id."""
  if order is None:
    return []
  if 'sort_by' in order and order['sort_by']:
    return [_signed(order['sort_by'])]
  ob = order.get('order_by', 'id')
  if ob is None:
    ob = []
  elif isinstance(ob, str):
    ob = [ob]
  cols = []
  saw_id = False
  for c in ob:
    if c == 'id':
      saw_id = True
      break
    cols.append(_signed(c))
  if not saw_id and has_manual_sort and not any(c == 'manualSort' for c, _ in cols):
    cols.append(('manualSort', 1))
  return cols


def _signed(c):
  return (c[1:], -1) if c.startswith('-') else (c, 1)


STR_OK_TYPES = ('Text', 'Choice', 'Any')
NUM_OK_TYPES = ('Int', 'Numeric', 'Bool', 'Any', 'ManualSortPos', 'PositionNumber', 'Id')


def comparable_class(values, ctype):
  """'num' / 'str' when the values of one sort column are mutually comparable in the plain sense the
  C13 statement presupposes (all numbers, no NaN; or all strings in a text-like column); else None."""
  ctype = base_type(ctype)
  if all(is_num(v) for v in values) and ctype in NUM_OK_TYPES:
    return 'num'
  if all(isinstance(v, str) for v in values) and ctype in STR_OK_TYPES and 'NaN#' not in values:
    return 'str'
  return None


def sort_plain(rows, coltypes, ids, ocols):
  """Sort ids by ocols then row id; returns (sorted ids, None) or (None, reason) when some sort
  column's values are not mutually comparable (C13 precondition)."""
  for c, _ in ocols:
    if c == 'id':
      continue
    vals = []
    for r in ids:
      if c not in rows[r]:
        return None, 'no_such_sort_column'
      vals.append(rows[r][c])
    if len(vals) > 1 and comparable_class(vals, coltypes.get(c)) is None:
      return None, 'sort_values_not_comparable'

  def cmp(a, b):
    for c, sign in ocols:
      x = a if c == 'id' else rows[a][c]
      y = b if c == 'id' else rows[b][c]
      if x < y:
        return -sign
      if y < x:
        return sign
    return -1 if a < b else (1 if b < a else 0)
  return sorted(ids, key=functools.cmp_to_key(cmp)), None


# ------------------------------------------------------------------------------------------------
# The documented total order of sort values (C14): None < numbers < other types by type name.
def order_class(v, ctype):
  """(0,) for None, (1, number), (2, type name, value-or-None). `ctype` is the column type of a cell
  (a string in a typed non-text column is alt text, whose values do not compare with each other),
  or None for a probe value (a plain Python value)."""
  if v is None:
    return (0,)
  if is_num(v):
    return (1, float(v))
  if isinstance(v, str):
    if ctype is None or base_type(ctype) in STR_OK_TYPES:
      return (2, 'str', v)
    return (2, 'AltText', None)
  raise ValueError('value outside the modelled order: %r' % (v,))


def cmp_class(x, y):
  if x[0] != y[0]:
    return -1 if x[0] < y[0] else 1
  if x[0] == 0:
    return 0
  if x[0] == 1:
    return -1 if x[1] < y[1] else (1 if y[1] < x[1] else 0)
  if x[1] != y[1]:
    return -1 if x[1] < y[1] else 1
  if x[2] is None or y[2] is None:
    return 0
  return -1 if x[2] < y[2] else (1 if y[2] < x[2] else 0)


def sort_total(rows, coltypes, ids, ocols):
  """Sort ids under the documented total order (mixed types allowed)."""
  def cmp(a, b):
    for c, sign in ocols:
      if c == 'id':
        x, y = (1, float(a)), (1, float(b))
      else:
        x, y = order_class(rows[a][c], coltypes.get(c)), order_class(rows[b][c], coltypes.get(c))
      d = cmp_class(x, y)
      if d:
        return d * sign
    return -1 if a < b else (1 if b < a else 0)
  return sorted(ids, key=functools.cmp_to_key(cmp))


def cmp_prefix(rows, coltypes, rid, ocols, values):
  """Compare the sort values of row `rid` with the probe tuple on the first len(values) columns:
  -1 row is before the probe, 0 equal on the prefix, 1 after."""
  for (c, sign), v in zip(ocols, values):
    x = (1, float(rid)) if c == 'id' else order_class(rows[rid][c], coltypes.get(c))
    d = cmp_class(x, order_class(v, None))
    if d:
      return d * sign
  return 0


def find_scan(op, ordered, rows, coltypes, ocols, values):
  """Linear scan for find.<op>(*values) over the ordered id list. Returns a row id or 0."""
  rel = [cmp_prefix(rows, coltypes, r, ocols, values) for r in ordered]
  res = 0
  if op == 'lt':
    for r, d in zip(ordered, rel):
      if d < 0:
        res = r
  elif op == 'le':
    for r, d in zip(ordered, rel):
      if d <= 0:
        res = r
  elif op == 'gt':
    for r, d in zip(ordered, rel):
      if d > 0:
        return r
  elif op == 'ge':
    for r, d in zip(ordered, rel):
      if d >= 0:
        return r
  elif op == 'eq':
    for r, d in zip(ordered, rel):
      if d == 0:
        return r
  else:
    raise ValueError(op)
  return res


# ------------------------------------------------------------------------------------------------
# Formula text
def key_expr(k):
  src = k['src']
  e = ('$' + src) if isinstance(src, str) else repr(src['lit'])
  if k.get('contains'):
    if 'match_empty' in k:
      return 'CONTAINS(%s, match_empty=%r)' % (e, k['match_empty'])
    return 'CONTAINS(%s)' % e
  return e


def order_expr(order):
  if order is None:
    return None
  if 'sort_by' in order:
    return 'sort_by=%r' % (order['sort_by'],)
  ob = order['order_by']
  return 'order_by=%r' % (tuple(ob) if isinstance(ob, list) else ob,)


def lookup_args(spec):
  args = ['%s=%s' % (k['col'], key_expr(k)) for k in spec['keys']]
  o = order_expr(spec.get('order'))
  if o:
    args.append(o)
  return ', '.join(args)


def formula_of(spec):
  if spec['kind'] == 'records':
    return '[r.id for r in %s.lookupRecords(%s)]' % (spec['table'], lookup_args(spec))
  return '%s.lookupOne(%s).id' % (spec['table'], lookup_args(spec))


# ------------------------------------------------------------------------------------------------
# Metadata helpers on snapshots
def column_types(S, table_id):
  """{col_id: type} of one table, read from the metadata tables of the snapshot."""
  trows, tcols = S['_grist_Tables']
  ref = None
  for r, tid in zip(trows, tcols['tableId']):
    if tid == table_id:
      ref = r
  out = {}
  crows, ccols = S['_grist_Tables_column']
  for i, r in enumerate(crows):
    if ccols['parentId'][i] == ref:
      out[ccols['colId'][i]] = ccols['type'][i]
  return out


def col_ref(S, table_id, col_id):
  trows, tcols = S['_grist_Tables']
  ref = None
  for r, tid in zip(trows, tcols['tableId']):
    if tid == table_id:
      ref = r
  crows, ccols = S['_grist_Tables_column']
  for i, r in enumerate(crows):
    if ccols['parentId'][i] == ref and ccols['colId'][i] == col_id:
      return int(r)
  return None


def table_ref(S, table_id):
  trows, tcols = S['_grist_Tables']
  for r, tid in zip(trows, tcols['tableId']):
    if tid == table_id:
      return int(r)
  return None
