"""
Grammar-based generator of formula programs over the current schema (DESIGN.md 3.3).
Volatile / side-effecting functions (NOW, TODAY, RAND, UUID, REQUEST, PEEK, lookupOrAddDerived) are
never generated here. Records are never stringified (their repr leaks helper-column names).
"""

def vis(c):
  return c['id'] not in ('manualSort', 'group') and not c['id'].startswith('gristHelper_')


SCALAR = ('Int', 'Numeric', 'Text', 'Bool', 'Choice', 'Date', 'DateTime', 'Any')


class FormulaGen(object):
  KINDS = ['plain', 'arith', 'cond', 'pair', 'ref_chain', 'reflist_chain', 'lookup', 'lookup_order',
           'lookup_contains', 'lookup_one', 'find', 'prevnext', 'rank', 'all', 'comprehension',
           'group', 'lazy', 'cycle', 'multiline', 'broken', 'const', 'cross']

  def __init__(self, rnd, off=()):
    self.r = rnd
    self.off = set(off)
    self.shapes = {}

  def _cols(self, t, pred=None):
    sc = getattr(self, 'self_col', None)
    return [c for c in t['cols'] if vis(c) and (pred is None or pred(c)) and not (sc and c['id'] == sc)]

  def _col(self, t, pred=None):
    cs = self._cols(t, pred)
    return self.r.choice(cs)['id'] if cs else None

  def _key_col(self, t):
    """A column whose values are hashable scalars (usable as a plain lookup key)."""
    return self._col(t, lambda c: c['type'].split(':')[0] in ('Int', 'Numeric', 'Text', 'Bool', 'Choice', 'Date',
                                                              'DateTime', 'Ref') and not c['isFormula'])

  def trigger_formula(self, m, t):
    r = self.r
    a = self._col(t)
    opts = ['7']
    if 'trigger_self' not in self.off:
      # counts its own evaluations: makes every extra/missing recalculation visible in the data
      opts.append('(value or 0) + 1 if isinstance(value, (int, float)) else 1')
    if a:
      opts += ['$%s' % a, 'len(str($%s))' % a,
               '($%s or 0) * 10 if isinstance($%s, (int, float)) and not isinstance($%s, bool) else -1' % (a, a, a)]
    return r.choice(opts)

  def formula(self, m, t, self_col=None):
    """self_col: id of the column being (re)defined, excluded from the columns the formula reads
    unless cycles are wanted (kind 'cycle' adds them deliberately)."""
    r = self.r
    self.self_col = self_col if 'self_ref' in self.off else None
    for _ in range(20):
      kind = r.choice(self.KINDS)
      if kind in self.off:
        continue
      f = getattr(self, 'f_' + kind)(m, t)
      if f is not None:
        self.shapes[kind] = self.shapes.get(kind, 0) + 1
        self.last_kind = kind
        return f
    return '1'

  def num(self, a):
    return '($%s if isinstance($%s, (int, float)) and not isinstance($%s, bool) else 0)' % (a, a, a)

  def f_const(self, m, t):
    return self.r.choice(['1', '$id * 10', 'None', '1/0', 'UPPER("abc")', '"x" * 2', '[1, 2]', 'True'])

  def f_plain(self, m, t):
    a = self._col(t)
    if not a:
      return None
    return self.r.choice(['$%s' % a, 'rec.%s' % a])

  def f_arith(self, m, t):
    a = self._col(t)
    b = self._col(t)
    if not a:
      return None
    return self.r.choice(['%s * 2 + 1' % self.num(a), '%s + %s' % (self.num(a), self.num(b)),
                          '$%s + $%s' % (a, b), 'len(str($%s))' % a, '-%s' % self.num(a)])

  def f_cond(self, m, t):
    a = self._col(t)
    b = self._col(t)
    if not a:
      return None
    return self.r.choice(['"big" if %s > 1 else "small"' % self.num(a), '$%s == $%s' % (a, b),
                          'bool($%s)' % a, '$%s if $%s else $%s' % (a, b, b)])

  def f_pair(self, m, t):
    a = self._col(t)
    b = self._col(t)
    if not a:
      return None
    return '[$%s, $%s]' % (a, b)

  def _ref_target(self, m, t, prefix):
    cs = self._cols(t, lambda c: c['type'].startswith(prefix))
    self.r.shuffle(cs)
    for c in cs:
      tt = m.tables.get(c['type'].split(':', 1)[1])
      if tt:
        tc = self._cols(tt)
        if tc:
          return c, tt, tc
    return None, None, None

  def f_ref_chain(self, m, t):
    c, tt, tc = self._ref_target(m, t, 'Ref:')
    if not c:
      return None
    x = self.r.choice(tc)
    if x['type'].startswith('Ref:') and self.r.random() < 0.5:
      t3 = m.tables.get(x['type'][4:])
      if t3 and self._cols(t3):
        return '$%s.%s.%s' % (c['id'], x['id'], self.r.choice(self._cols(t3))['id'])
    return self.r.choice(['$%s.%s' % (c['id'], x['id']), '$%s.id' % c['id'], 'rec.%s.%s' % (c['id'], x['id'])])

  def f_reflist_chain(self, m, t):
    c, tt, tc = self._ref_target(m, t, 'RefList:')
    if not c:
      return None
    x = self.r.choice(tc)
    return self.r.choice(['$%s.%s' % (c['id'], x['id']), 'len($%s)' % c['id'], '[r.id for r in $%s]' % c['id'],
                          'sum(%s for r in $%s)' % ('1', c['id'])])

  def _other(self, m):
    others = [o for o in m.user_tables if self._cols(o)]
    return self.r.choice(others) if others else None

  def f_lookup(self, m, t):
    o = self._other(m)
    a = self._key_col(t) if 'list_keys' in self.off else self._col(t)
    if not o or not a:
      return None
    oc = self._col(o)
    oc2 = self._col(o)
    return self.r.choice([
      'len(%s.lookupRecords(%s=$%s))' % (o['id'], oc, a),
      '[x.id for x in %s.lookupRecords(%s=$%s)]' % (o['id'], oc, a),
      '%s.lookupRecords(%s=$%s)' % (o['id'], oc, a),
      '[x.id for x in %s.lookupRecords(%s=$%s, %s=$%s)]' % (o['id'], oc, a, oc2, a) if oc2 != oc else None,
      '%s.lookupRecords(%s=$%s).%s' % (o['id'], oc, a, oc2),
    ])

  def f_lookup_order(self, m, t):
    o = self._other(m)
    a = self._key_col(t) if 'list_keys' in self.off else self._col(t)
    if not o or not a:
      return None
    oc = self._col(o)
    oc2 = self._col(o, lambda c: c['type'].split(':')[0] in ('Int', 'Numeric', 'Text', 'Date', 'Bool', 'Choice'))
    if not oc2:
      return None
    return self.r.choice([
      '[x.id for x in %s.lookupRecords(%s=$%s, order_by="-%s")]' % (o['id'], oc, a, oc2),
      '[x.id for x in %s.lookupRecords(%s=$%s, order_by=("%s", "-id"))]' % (o['id'], oc, a, oc2),
      '[x.id for x in %s.lookupRecords(%s=$%s, sort_by="%s")]' % (o['id'], oc, a, oc2),
      '[x.id for x in %s.lookupRecords(order_by="%s")]' % (o['id'], oc2),
      '%s.lookupOne(%s=$%s, order_by="-%s").id' % (o['id'], oc, a, oc2),
    ])

  def f_lookup_contains(self, m, t):
    a = self._key_col(t) if 'list_keys' in self.off else self._col(t)
    if not a:
      return None
    cands = []
    for o in m.user_tables:
      for c in self._cols(o, lambda c: c['type'] == 'ChoiceList' or c['type'].startswith('RefList:')):
        cands.append((o, c))
    if not cands:
      return None
    o, c = self.r.choice(cands)
    return self.r.choice([
      '[x.id for x in %s.lookupRecords(%s=CONTAINS($%s))]' % (o['id'], c['id'], a),
      '[x.id for x in %s.lookupRecords(%s=CONTAINS($%s, match_empty=""))]' % (o['id'], c['id'], a),
      'len(%s.lookupRecords(%s=CONTAINS($id)))' % (o['id'], c['id']),
    ])

  def f_lookup_one(self, m, t):
    o = self._other(m)
    a = self._key_col(t) if 'list_keys' in self.off else self._col(t)
    if not o or not a:
      return None
    oc = self._col(o)
    oc2 = self._col(o)
    return self.r.choice(['%s.lookupOne(%s=$%s).%s' % (o['id'], oc, a, oc2),
                          '%s.lookupOne(%s=$id)' % (o['id'], oc),
                          '%s.lookupOne(%s=$%s).id' % (o['id'], oc, a)])

  def f_find(self, m, t):
    o = self._other(m)
    a = self._col(t)
    if not o or not a:
      return None
    oc2 = self._col(o, lambda c: c['type'].split(':')[0] in ('Int', 'Numeric'))
    if not oc2:
      return None
    op = self.r.choice(['lt', 'le', 'gt', 'ge', 'eq'])
    return '%s.lookupRecords(order_by="%s").find.%s(%s).id' % (o['id'], oc2, op, self.num(a))

  def f_prevnext(self, m, t):
    if t['summary']:
      return None
    a = self._col(t, lambda c: c['type'].split(':')[0] in ('Int', 'Numeric', 'Text', 'Date', 'Choice', 'Bool') and not c['isFormula'])
    b = self._col(t, lambda c: not c['isFormula'] and c['type'].split(':')[0] in ('Int', 'Text', 'Choice', 'Bool'))
    if not a:
      return None
    return self.r.choice([
      'PREVIOUS(rec, order_by="%s").id' % a,
      'NEXT(rec, order_by="-%s").id' % a,
      'NEXT(rec, group_by="%s", order_by="%s").id' % (b, a) if b else None,
      'PREVIOUS(rec, group_by="%s", order_by=("%s", "id")).id' % (b, a) if b else None,
    ])

  def f_rank(self, m, t):
    if t['summary']:
      return None
    a = self._col(t, lambda c: c['type'].split(':')[0] in ('Int', 'Numeric', 'Text', 'Date', 'Choice', 'Bool') and not c['isFormula'])
    b = self._col(t, lambda c: not c['isFormula'] and c['type'].split(':')[0] in ('Int', 'Text', 'Choice', 'Bool'))
    if not a:
      return None
    return self.r.choice(['RANK(rec, order_by="%s")' % a, 'RANK(rec, order_by="%s", order="desc")' % a,
                          'RANK(rec, group_by="%s", order_by="%s")' % (b, a) if b else None])

  def f_all(self, m, t):
    o = self._other(m)
    if not o:
      return None
    oc = self._col(o)
    return self.r.choice(['sum(1 for x in %s.all)' % o['id'], 'len(%s.all)' % o['id'],
                          '[x.id for x in %s.all]' % o['id'], 'len(%s.all.%s)' % (o['id'], oc)])

  def f_comprehension(self, m, t):
    o = self._other(m)
    a = self._col(t)
    if not o or not a:
      return None
    oc = self._col(o)
    return self.r.choice(['[x.%s for x in %s.all if x.id != $id]' % (oc, o['id']),
                          'sum(1 for x in %s.all if x.%s == $%s)' % (o['id'], oc, a),
                          '{x.id: x.%s for x in %s.all}.get($id)' % (oc, o['id'])])

  def f_cross(self, m, t):
    # chains across tables through lookups
    o = self._other(m)
    if not o:
      return None
    oc = self._col(o, lambda c: c['isFormula'])
    if not oc:
      return None
    return '[x.%s for x in %s.lookupRecords(id=$id)]' % (oc, o['id'])

  def f_group(self, m, t):
    if not t['summary']:
      return None
    src = m.byref.get(t['summary'])
    if not src:
      return None
    sc = self._cols(src)
    if not sc:
      return None
    x = self.r.choice(sc)['id']
    return self.r.choice(['len($group)', '[x.id for x in $group]', 'SUM(v for v in $group.%s if isinstance(v, (int, float)))' % x,
                          '$group.%s' % x, 'MAX([r.id for r in $group] or [0])'])

  def f_lazy(self, m, t):
    a = self._col(t)
    if not a:
      return None
    return self.r.choice(['IF($%s, 1, 1/0)' % a, 'IFERROR(1/0, $%s)' % a, 'IFERROR($%s.upper(), "no")' % a])

  def f_cycle(self, m, t):
    fc = self._cols(t, lambda c: c['isFormula'])
    if not fc:
      return None
    a = self.r.choice(fc)['id']
    return self.r.choice(['$%s' % a, '($%s or 0) + 1' % a])

  def f_multiline(self, m, t):
    a = self._col(t)
    if not a:
      return None
    return self.r.choice(['x = $%s\nif x:\n  return [x]\nreturn None' % a, 'y = 2\ny * 3',
                          '# comment $%s\n"$%s"' % (a, a), 'def f(v):\n  return [v, v]\nf($%s)' % a])

  def f_broken(self, m, t):
    return self.r.choice(['$NoSuchCol', 'NoSuchTable.lookupOne(a=1)', '1 +', 'rec.', 'return ==', 'undefined_name',
                          '$id.foo', 'import os\nos.getpid'])
