"""
Shared helpers of the record-level checks C26 / C27 / C28: explicitly built documents, a session
object that drives one engine process with many bundles and duck-types `histories.History` as far
as the shared no-trace oracle (`histories.NoTraceMonitor.check_after_failure`) needs, and plain
dict tables read from snapshots.
"""
import json

from vlib import snapshot, histories
from vlib.client import EngineProc, Watchdog, EngineDied     # noqa: F401  (re-exported)

DEFAULTS = {'Int': 0, 'Text': '', 'Ref': 0, 'RefList': None, 'Numeric': 0.0, 'Any': None}


def base_type(ctype):
  return ctype.split(':', 1)[0]


def target_of(ctype):
  return ctype.split(':', 1)[1] if ':' in ctype else None


def default_of(ctype):
  return DEFAULTS[base_type(ctype)]


def fresh(obj):
  """User actions mutate their arguments; and the history must keep what was sent."""
  return json.loads(json.dumps(obj))


class Session(object):
  """One engine process driven bundle by bundle; records the history for replays."""
  def __init__(self, acc, proc, seed):
    self.acc = acc
    self.proc = proc
    self.seed = seed
    self.log = []
    self.step_no = 0
    self.monitors = []
    self._notrace = histories.NoTraceMonitor(count_cases=False)

  def apply(self, actions, tag='gen'):
    reply, err = self.proc.try_apply(fresh(actions))
    self.log.append([tag, fresh(actions), err is None])
    return reply, err

  def must_apply(self, actions, tag='setup'):
    reply, err = self.apply(actions, tag)
    if err is not None:
      raise RuntimeError('setup action failed: %s: %s' % (actions, err.text))
    return reply

  def snap(self):
    return snapshot.take(self.proc)

  def violation(self, mech, summary, detail=None):
    import os
    d = {'history_seed': self.seed, 'step': self.step_no,
         'log_tail': list(self.log) if os.environ.get('VERIF_FULL_LOG') else self.log[-8:]}
    if detail:
      d.update(detail)
    self.acc.violation(mech, summary, d)

  def check_no_trace(self, S0, S1, bundle, how):
    """C04's oracle for one failed bundle: document == pre-state, schema == metadata, a following
    Calculate emits nothing. Returns the snapshot to continue from."""
    return self._notrace.check_after_failure(self, S0, S1, bundle, how)


def add_table(sess, table_id, data_cols, formula_cols=()):
  cols = [{'id': c, 'type': t, 'isFormula': False} for c, t in data_cols]
  cols += [{'id': c, 'type': t, 'isFormula': True, 'formula': f} for c, t, f in formula_cols]
  sess.must_apply([['AddTable', table_id, cols]])


def add_late_columns(sess, table_id, data_cols, formula_cols=()):
  """Columns whose type names a table that did not exist when table_id was created."""
  for c, t in data_cols:
    sess.must_apply([['AddColumn', table_id, c, {'type': t, 'isFormula': False}]])
  for c, t, f in formula_cols:
    sess.must_apply([['AddColumn', table_id, c, {'type': t, 'isFormula': True, 'formula': f}]])


def table_rows(snap, table_id, cols):
  """{row_id: {col: normalised value}} restricted to cols."""
  rids, data = snap[table_id]
  return {r: {c: data[c][i] for c in cols} for i, r in enumerate(rids)}


def diff_rows(expected, observed, what, maxn=5):
  """Differences between two {row_id: {col: value}} maps (values normalised with snapshot.norm)."""
  msgs = []
  if sorted(expected) != sorted(observed):
    msgs.append('%s row ids: expected %s, engine has %s' % (what, sorted(expected), sorted(observed)))
    return msgs
  for r in sorted(expected):
    for c in sorted(expected[r]):
      e = snapshot.norm(expected[r][c])
      o = observed[r].get(c)
      if e != o:
        msgs.append('%s[%s].%s: expected %r, engine has %r' % (what, r, c, e, o))
        if len(msgs) >= maxn:
          return msgs
  return msgs


def run_guarded(acc, fn):
  """Watchdog / dead engine are verdicts about the run, never violations of the property."""
  try:
    fn()
  except Watchdog as e:
    acc.inconclusive.append('watchdog: %s' % e)
  except EngineDied as e:
    acc.inconclusive.append('engine died: %s' % e)
