"""
Reopening a document (C07): a fresh engine process is loaded from what the live engine *reports*
through the real exported calls, in the shape DocStorage hands a table back to the sandbox:

  * one call of the exported `fetch_table(table_id, True)` per table of the live engine;
  * every cell value a primitive as it is, every non-primitive (encoded) value as the bytes of
    marshal.dumps(value) (what Node stores as a BLOB), the column dict with bytes keys, the whole
    thing marshalled (vlib.reload.db_table) -- so main.table_data_from_db / _decode_db_value decode it;
  * `load_meta_tables(_grist_Tables, _grist_Tables_column)` first; it returns the names of the tables
    the new engine expects, which are then loaded one by one with `load_table` (a table the live
    engine cannot report is handed over as None, i.e. "no such table in storage");
  * finally the `Calculate` user action, as Node applies it after loading.

Node-side number retyping (ints that SQLite returns for whole floats, 0/1 for booleans) is not
simulated: marshal keeps the Python type of every primitive.
"""
from vlib import snapshot
from vlib.client import EngineProc, EngineError
from vlib.reload import db_table

META = ('_grist_Tables', '_grist_Tables_column')


def fetch_all(live, table_ids):
  """{table_id: reply of the exported fetch_table(table_id, True)} (None where the call raised)."""
  out = {}
  for t in table_ids:
    try:
      out[t] = live.call('fetch_table', t, True, record=False)
    except EngineError:
      out[t] = None
  return out


def reopen(live, proc_kw=None):
  """
  Returns (fresh EngineProc, Reply of Calculate, info). The caller closes the process.
  info: {'expected': [...names load_meta_tables asked for...], 'missing': [...names the live engine
  could not report...], 'cells': number of cells handed over, 'blobs': number of marshalled values}.
  """
  raw = fetch_all(live, list(META))
  fresh = EngineProc(**(proc_kw or {}))
  info = {'expected': [], 'missing': [], 'cells': 0, 'blobs': 0}
  try:
    expected = fresh.call('load_meta_tables', db_table(raw[META[0]]), db_table(raw[META[1]]), record=False)
    info['expected'] = list(expected)
    rest = fetch_all(live, expected)
    for t in expected:
      rep = rest[t]
      if rep is None:
        info['missing'].append(t)
        fresh.call('load_table', t, None, record=False)
        continue
      for vals in rep[3].values():
        info['cells'] += len(vals)
        info['blobs'] += sum(1 for v in vals if isinstance(v, (list, dict, tuple)))
      fresh.call('load_table', t, db_table(rep), record=False)
    reply = fresh.apply([['Calculate']])
  except Exception:
    fresh.kill()
    raise
  return fresh, reply, info
