"""
C24 oracle: what an encoded value must satisfy so that the reply carrying it can be delivered to
Node and round-trips. Written without reference to objtypes.encode_object's own case analysis.

  judge(encode, decode, result)  ->  list of (mechanism, summary, detail)   (empty = holds)

  1. marshal.dumps(result, 2) succeeds (that is literally what Sandbox._send_to_js does);
  2. a byte-level walk of that marshal output (own parser of the format) consumes it exactly and
     meets only the type codes the Unmarshaller of app/common/marshal.ts can parse;
  3. encode(decode(result)) has the same form as result (NaN == NaN, bool only equals bool, ints and
     floats numerically, tuple == list since Node sees both as arrays).

Nothing is demanded beyond the statement: ints of any size are fine (marshal.ts parses TYPE_LONG),
dict keys need only be what marshal accepts, nesting may be as deep as marshal allows.
"""
import sys
import math
import struct
import marshal

# Type codes handled by Unmarshaller._parse in app/common/marshal.ts:
#   NULL NONE FALSE TRUE INT INT64 FLOAT BFLOAT STRING TUPLE LIST DICT UNICODE INTERNED STRINGREF LONG
NODE_CODES = frozenset(b'0NFTiIfgs([{utRl')

PLAIN = (type(None), bool, int, float, str, list, tuple, dict)


class MarshalFormatError(Exception):
  pass


def walk_marshal(buf):
  """Parse marshal (version <= 2) output iteratively. Returns the set of type codes met.
  Raises MarshalFormatError if the bytes are not one complete value in the known format."""
  codes = set()
  pos = 0
  n = len(buf)
  stack = [['seq', 1]]
  def need(k):
    if pos + k > n:
      raise MarshalFormatError('truncated at %d' % pos)
  while stack:
    top = stack[-1]
    if top[0] == 'seq':
      if top[1] == 0:
        stack.pop()
        continue
      top[1] -= 1
    else:      # dict: key, value, key, value ... NULL
      if top[1] == 0:
        need(1)
        if buf[pos] == 0x30:      # '0'
          codes.add(0x30)
          pos += 1
          stack.pop()
          continue
        top[1] = 1
      else:
        top[1] = 0
    need(1)
    code = buf[pos]
    pos += 1
    codes.add(code)
    c = chr(code & 0x7f)
    if code & 0x80:
      codes.add(-1)        # FLAG_REF (marshal version >= 3): not understood by marshal.ts
    if c in 'NFT.S0':
      pass
    elif c == 'i' or c == 'R' or c == 'r':
      need(4)
      pos += 4
    elif c == 'I' or c == 'g':
      need(8)
      pos += 8
    elif c == 'y':
      need(16)
      pos += 16
    elif c == 'f':
      need(1)
      k = buf[pos]
      need(1 + k)
      pos += 1 + k
    elif c == 'x':
      for _ in range(2):
        need(1)
        k = buf[pos]
        need(1 + k)
        pos += 1 + k
    elif c == 'l':
      need(4)
      (k,) = struct.unpack_from('<i', buf, pos)
      pos += 4
      need(2 * abs(k))
      pos += 2 * abs(k)
    elif c in 'sutaA':
      need(4)
      (k,) = struct.unpack_from('<i', buf, pos)
      if k < 0:
        raise MarshalFormatError('negative length')
      pos += 4
      need(k)
      pos += k
    elif c in 'zZ':
      need(1)
      k = buf[pos]
      need(1 + k)
      pos += 1 + k
    elif c in '([<>':
      need(4)
      (k,) = struct.unpack_from('<i', buf, pos)
      if k < 0:
        raise MarshalFormatError('negative size')
      pos += 4
      stack.append(['seq', k])
    elif c == ')':
      need(1)
      k = buf[pos]
      pos += 1
      stack.append(['seq', k])
    elif c == '{':
      stack.append(['dict', 0])
    else:
      raise MarshalFormatError('unknown type code %r at %d' % (c, pos - 1))
  if pos != n:
    raise MarshalFormatError('%d trailing bytes' % (n - pos))
  return codes


def find_nonplain(obj, limit=200000):
  """First part of obj (iteratively, cycles tolerated) whose exact type marshal does not take as is.
  Returns None or (category, type name): category 'str_subclass' when it is an instance of a strict
  subclass of str, 'subclass:<base>' for other subclasses of plain types, else 'foreign'."""
  seen = set()
  stack = [obj]
  steps = 0
  while stack:
    steps += 1
    if steps > limit:
      return None
    o = stack.pop()
    t = type(o)
    if t in (type(None), bool, int, float, str):
      continue
    if t in (list, tuple, dict):
      if id(o) in seen:
        continue
      seen.add(id(o))
      if t is dict:
        stack.extend(o.values())
        stack.extend(o.keys())
      else:
        stack.extend(o)
      continue
    if isinstance(o, str):
      return ('str_subclass', t.__name__)
    for base in (bool, int, float, bytes, list, tuple, dict):
      if isinstance(o, base):
        return ('subclass:' + base.__name__, t.__name__)
    return ('foreign', t.__name__)
  return None


def same_form(a, b):
  """Equality of two encoded forms as Node would see them."""
  stack = [(a, b)]
  while stack:
    x, y = stack.pop()
    tx, ty = type(x), type(y)
    if tx is float and ty is float:
      if not (x == y or (math.isnan(x) and math.isnan(y))):
        return False
      continue
    if tx is bool or ty is bool:
      if tx is not ty or x != y:
        return False
      continue
    if tx in (int, float) and ty in (int, float):
      if x != y:
        return False
      continue
    if tx in (list, tuple) and ty in (list, tuple):
      if len(x) != len(y):
        return False
      stack.extend(zip(x, y))
      continue
    if tx is not ty:
      return False
    if tx is dict:
      if set(x) != set(y):
        return False
      stack.extend((x[k], y[k]) for k in x)
      continue
    if x != y:
      return False
  return True


def first_difference(a, b):
  """(subtree of a, subtree of b) at the first place where the two forms differ, or None."""
  stack = [(a, b)]
  while stack:
    x, y = stack.pop()
    if same_form(x, y):
      continue
    if type(x) in (list, tuple) and type(y) in (list, tuple) and len(x) == len(y) and x and y and \
        isinstance(x[0], str) and x[0] == y[0]:
      stack.extend(reversed(list(zip(x, y))))
      continue
    if type(x) is dict and type(y) is dict and set(x) == set(y):
      stack.extend((x[k], y[k]) for k in x)
      continue
    return (x, y)
  return None


def short(v, n=300):
  try:
    r = repr(v)
  except Exception as e:      # pylint: disable=broad-except
    r = '<repr failed: %s>' % type(e).__name__
  return r if len(r) <= n else r[:n] + '...'


class deep_recursion(object):
  """The round trip of a deeply nested form needs more Python stack than the first encoding had left;
  running short of stack inside the *oracle* must not look like a property violation."""
  def __init__(self, limit=12000):
    self.limit = limit
  def __enter__(self):
    self.old = sys.getrecursionlimit()
    if self.old < self.limit:
      sys.setrecursionlimit(self.limit)
  def __exit__(self, *a):
    sys.setrecursionlimit(self.old)


TRIVIAL = (type(None), bool, float, str)

def is_trivial(result):
  t = type(result)
  return t in TRIVIAL or (t is int)


def judge(encode, decode, result):
  """The C24 post-condition for one encoded form. -> [(mechanism, summary, detail)]"""
  if is_trivial(result):
    return []      # exact None/bool/int/float/str: marshal-safe by definition, decode is the identity
  out = []
  try:
    buf = marshal.dumps(result, 2)
  except Exception as e:      # pylint: disable=broad-except
    bad = find_nonplain(result)
    if bad and bad[0] == 'str_subclass':
      mech = 'str_subclass_not_cast'
      why = 'an instance of %s (a str subclass) survives in the encoded form' % bad[1]
    elif bad:
      mech = 'nonplain_in_result'
      why = 'the encoded form contains a %s (%s)' % (bad[1], bad[0])
    else:
      mech = 'marshal_rejects'
      why = 'plain types only'
    return [(mech, 'marshal.dumps rejects the encoded form (%s: %s): %s' % (type(e).__name__, why, short(result)),
             {'error': type(e).__name__, 'offending': bad, 'result': short(result)})]
  try:
    codes = walk_marshal(buf)
  except MarshalFormatError as e:
    return [('marshal_walk_failed', 'own marshal parser could not walk the output: %s' % e, {'result': short(result)})]
  alien = sorted(chr(c & 0x7f) if c >= 0 else 'FLAG_REF' for c in codes if c not in NODE_CODES)
  if alien:
    out.append(('node_cannot_parse', 'marshal output uses type codes %s that app/common/marshal.ts does not parse: %s' % (
        alien, short(result)), {'codes': alien, 'result': short(result)}))
    return out
  try:
    with deep_recursion():
      back = encode(decode(result))
  except RecursionError:
    return out      # not decidable within the stack; counted by the caller through 'undecided'
  except Exception as e:      # pylint: disable=broad-except
    out.append(('roundtrip_raises', 'encode(decode(form)) raised %s for %s' % (type(e).__name__, short(result)),
                {'error': type(e).__name__, 'result': short(result)}))
    return out
  if not same_form(back, result):
    d = first_difference(result, back) or (result, back)
    mech = 'roundtrip_differs'
    x, y = d
    if type(x) in (list, tuple) and len(x) == 3 and x[0] == 'D' and type(y) in (list, tuple) and len(y) >= 2 and \
        y[0] == 'E' and y[1] == 'OverflowError':
      # open finding: a naive/UTC datetime within the last microseconds of year 9999 gets a float
      # timestamp that rounds up to year 10000, which decode cannot represent
      mech = 'datetime_rounds_past_max'
    out.append((mech, 'encode(decode(form)) differs: %s became %s (whole form %s)' % (short(x, 120), short(y, 120), short(result, 200)),
                {'result': short(result), 'back': short(back), 'at': [short(x, 150), short(y, 150)]}))
  return out
