"""
Engine process for the verification harness (DESIGN.md section 3.1).

Started as   /venv/bin/python /verif/vlib/worker.py
with         PYTHONPATH=/verif/shim:/repo/sandbox/grist  PIPE_MODE=minimal
It installs the in-process monitors (all harness-side: live classes of the repository are wrapped,
no file of /repo is touched), registers a few verif_* calls on the repository's own Sandbox object
and then hands control to the repository's own main.run(), so that every request of the harness
goes through the real marshal pipe protocol and the real exported functions.
"""
import os
import sys
import random
import traceback
import logging

HERE = os.path.dirname(os.path.abspath(__file__))
sys.path.insert(0, os.path.dirname(HERE))

# main.py configures logging at INFO on stderr; the harness sends stderr to /dev/null (or a file
# when VERIF_WORKER_LOG is set) so that the pipe can never fill up.
_log = os.environ.get('VERIF_WORKER_LOG')
if _log:
  sys.stderr = open(_log, 'a')
else:
  sys.stderr = open(os.devnull, 'w')

from vlib import contracts   # noqa: E402  (wraps objtypes etc. before useractions imports them)
contracts.install_early()

import sandbox as sandbox_mod   # noqa: E402
import engine as engine_mod     # noqa: E402
import main as main_mod         # noqa: E402
import depend                   # noqa: E402
import actions                  # noqa: E402
import objtypes                 # noqa: E402
import useractions              # noqa: E402
import docactions               # noqa: E402
import docmodel                 # noqa: E402
import summary                  # noqa: E402

logging.disable(logging.WARNING)

contracts.install_late()

STATE = {
  'eng': None,
  'last_tb': None,
  'order_seed': 0,
  'order_rng': None,
  'orders_seen': set(),
  'order_calls': 0,
  'trace': [],
  'trace_on': False,
  'fault': None,       # dict(sites=set or None, k=int, count=int, fired=None or site)
  'site_hits': {},
}


class InjectedFault(Exception):
  """Raised by an armed failpoint (C04)."""


# ----------------------------------------------------------------------------------------------
# Capture the engine created by main.run()
_orig_engine_init = engine_mod.Engine.__init__
def _engine_init(self, *a, **kw):
  _orig_engine_init(self, *a, **kw)
  STATE['eng'] = self
  def tracer(col, record):
    if STATE['trace_on']:
      tid = col.table_id
      cid = col.col_id
      if not tid.startswith('_grist_') and not cid.startswith('#'):
        STATE['trace'].append((tid, cid, int(record._row_id)))
  self.formula_tracer = tracer
engine_mod.Engine.__init__ = _engine_init


# ----------------------------------------------------------------------------------------------
# C06 / C18: permutation of the initial work-item order.
_orig_make_items = engine_mod.Engine._make_sorted_work_items
def _make_items(self, nodes):
  items = _orig_make_items(self, nodes)
  STATE['order_calls'] += 1
  rng = STATE['order_rng']
  if rng is not None and len(items) > 1:
    # Items are processed from the END of the list. The engine's own rule: '#lookup' nodes are
    # processed first, i.e. they stay at the end; everything else is shuffled.
    k = len(items)
    while k > 0 and items[k - 1].node.col_id.startswith('#lookup'):
      k -= 1
    head = items[:k]
    rng.shuffle(head)
    items = head + items[k:]
  if len(items) > 1:
    STATE['orders_seen'].add(hash(tuple(i.node for i in items)))
  return items
engine_mod.Engine._make_sorted_work_items = _make_items


# ----------------------------------------------------------------------------------------------
# C04: failpoints at call boundaries where the real code can raise.
def _failpoint(site):
  hits = STATE['site_hits']
  hits[site] = hits.get(site, 0) + 1
  f = STATE['fault']
  if f is None or f['fired'] is not None:
    return
  if f['sites'] is not None and site.split(':')[0] not in f['sites'] and site not in f['sites']:
    return
  f['count'] += 1
  f['seen'].append(site)
  if f['count'] == f['k']:
    f['fired'] = site
    raise InjectedFault("injected at %s (#%d)" % (site, f['k']))

def _disarm_on_natural_failure():
  """An exception that the harness did not inject is propagating: what follows is the engine's own
  recovery code, where a failpoint must never fire (that would be a double fault)."""
  f = STATE['fault']
  if f is not None and f['fired'] is None:
    f['fired'] = 'natural-failure'

def _wrap_entry(cls, name, site, also_exit=False):
  orig = cls.__dict__.get(name)
  if orig is None or not callable(orig):
    return False
  def wrapper(*a, **kw):
    _failpoint(site)
    try:
      r = orig(*a, **kw)
    except BaseException:
      _disarm_on_natural_failure()
      raise
    if also_exit:
      _failpoint(site + ':exit')
    return r
  wrapper.__name__ = getattr(orig, '__name__', name)
  wrapper.__doc__ = getattr(orig, '__doc__', None)
  wrapper.__wrapped__ = orig
  for attr in ('is_system_action',):
    if hasattr(orig, attr):
      setattr(wrapper, attr, getattr(orig, attr))
  setattr(cls, name, wrapper)
  return True

FAULT_SITES = []
def _install_failpoints():
  E = engine_mod.Engine
  for name in ('apply_doc_action', 'rebuild_usercode', '_bring_mlookups_up_to_date'):
    if _wrap_entry(E, name, 'Engine.' + name):
      FAULT_SITES.append('Engine.' + name)
  for name in sorted(actions.ActionTypes if hasattr(actions, 'ActionTypes') else []):
    pass
  for name, val in sorted(docactions.DocActions.__dict__.items()):
    if name[0].isupper() and callable(val):
      if _wrap_entry(docactions.DocActions, name, 'DocActions.' + name):
        FAULT_SITES.append('DocActions.' + name)
  UA = useractions.UserActions
  for name, val in sorted(UA.__dict__.items()):
    if not callable(val):
      continue
    if name[0].isupper() and name not in ('ApplyUndoActions',):
      # Every public user action (they are looked up by getattr at call time).
      if _wrap_entry(UA, name, 'UserActions.' + name, also_exit=True):
        FAULT_SITES.append('UserActions.' + name)
    elif name in ('_do_doc_action', 'doBulkAddOrReplace', 'doBulkUpdateRecord', 'doBulkUpdateFromPairs',
                  'doBulkRemoveRecord', 'doModifyColumn', 'doAddColumn', 'doRenameTable',
                  '_doAddColumn', '_doModifyColumn'):
      if _wrap_entry(UA, name, 'UserActions.' + name, also_exit=True):
        FAULT_SITES.append('UserActions.' + name)
  # Overrides registered in the _action_method_overrides table were bound before wrapping: wrap
  # the table entries too.
  ov = getattr(useractions, '_action_method_overrides', None)
  if isinstance(ov, dict):
    for key, fn in list(ov.items()):
      site = 'override.%s.%s' % key if isinstance(key, tuple) else 'override.%s' % (key,)
      def mk(fn, site):
        def wrapper(*a, **kw):
          _failpoint(site)
          try:
            r = fn(*a, **kw)
          except BaseException:
            _disarm_on_natural_failure()
            raise
          _failpoint(site + ':exit')
          return r
        wrapper.__name__ = getattr(fn, '__name__', 'override')
        return wrapper
      ov[key] = mk(fn, site)
      FAULT_SITES.append(site)
  DM = docmodel.DocModel
  for name in ('add', 'update', 'remove', 'insert', 'insert_after', 'apply_auto_removes'):
    if _wrap_entry(DM, name, 'DocModel.' + name, also_exit=True):
      FAULT_SITES.append('DocModel.' + name)
  SA = getattr(summary, 'SummaryActions', None)
  if SA is not None:
    for name, val in sorted(SA.__dict__.items()):
      if callable(val) and not name.startswith('__'):
        if _wrap_entry(SA, name, 'SummaryActions.' + name, also_exit=True):
          FAULT_SITES.append('SummaryActions.' + name)

def _install_recovery_guard():
  orig = engine_mod.Engine._undo_to_checkpoint
  def _undo_to_checkpoint(self, checkpoint):
    _disarm_on_natural_failure()
    return orig(self, checkpoint)
  engine_mod.Engine._undo_to_checkpoint = _undo_to_checkpoint

if os.environ.get('VERIF_FAILPOINTS') == '1':
  _install_failpoints()
  _install_recovery_guard()


# ----------------------------------------------------------------------------------------------
# Exported verif_* functions
def _eng():
  return STATE['eng']

def verif_schema():
  """The engine's internal schema as plain data, plus the live column objects and usercode."""
  e = _eng()
  out = {}
  for tid, t in e.schema.items():
    out[tid] = [[c.colId, c.type, bool(c.isFormula), c.formula, c.reverseColId or None]
                for c in t.columns.values()]
  live = {}
  for tid, tab in e.tables.items():
    live[tid] = sorted(c for c in tab.all_columns if not c.startswith('#'))
  import table as table_module
  usercode = sorted(k for k, v in vars(e.gencode.usercode).items()
                    if isinstance(v, table_module.UserTable)) if e.gencode.usercode else []
  return {'schema': out, 'live': live, 'usercode': usercode}

def verif_arm(sites, k):
  STATE['fault'] = {'sites': set(sites) if sites else None, 'k': int(k), 'count': 0,
                    'fired': None, 'seen': []}
  return True

def verif_fault_report():
  f = STATE['fault']
  STATE['fault'] = None
  if f is None:
    return None
  return {'fired': f['fired'], 'count': f['count'], 'seen': f['seen'][:200]}

def verif_fault_sites():
  return {'sites': FAULT_SITES, 'hits': STATE['site_hits']}

def verif_set_order(seed):
  STATE['order_seed'] = seed
  STATE['order_rng'] = random.Random(seed) if seed else None
  return True

def verif_order_stats():
  return {'distinct_orders': len(STATE['orders_seen']), 'calls': STATE['order_calls'],
          'hashes': [h & 0xffffffffffff for h in list(STATE['orders_seen'])[:5000]]}

def verif_trace(on):
  STATE['trace_on'] = bool(on)
  STATE['trace'] = []
  return True

def verif_drain_trace():
  t = STATE['trace']
  STATE['trace'] = []
  return [list(x) for x in t]

def verif_drain_contracts():
  return contracts.drain()

def verif_dep_edges():
  e = _eng()
  out = set()
  for edge in e.dep_graph._all_edges:
    out.add((edge.out_node.table_id, edge.out_node.col_id, edge.in_node.table_id, edge.in_node.col_id))
  return sorted(list(x) for x in out)

def verif_last_traceback():
  return STATE['last_tb']

def verif_convert(table_id, col_id, values):
  """Convert encoded values with the *live* column's type (C23 oracle helper)."""
  e = _eng()
  col = e.tables[table_id].get_column(col_id)
  out = []
  for v in values:
    raw = objtypes.decode_object(v)
    out.append(objtypes.encode_object(col.convert(raw)))
  return out

def verif_fetch_query(table_id, formulas, private, query_items):
  """C41: call Engine.fetch_table with Python-level query values (decoded from encoded form)."""
  e = _eng()
  query = None
  if query_items is not None:
    query = {c: [objtypes.decode_object(v) for v in vals] for c, vals in query_items}
  td = e.fetch_table(table_id, formulas=formulas, private=private, query=query)
  return actions.get_action_repr(td)

def verif_py(modname, funcname, payload=None):
  """Run a harness-side python helper inside the engine process: <modname>.<funcname>(engine, payload).
  modname is a module of /verif (e.g. 'props.C23_inproc'); helpers must return marshal-safe plain data."""
  import importlib
  mod = importlib.import_module(modname)
  return getattr(mod, funcname)(_eng(), payload)

def verif_snapshot(formulas=True):
  """Every table the engine knows, fetched and encoded exactly as the exported fetch_table does."""
  e = _eng()
  return {t: actions.get_action_repr(e.fetch_table(t, formulas=formulas)) for t in list(e.tables)}

def verif_ping():
  return 'pong'


def _register_all(sb):
  orig_register = sb.register
  def register(name, func):
    def wrapper(*a, **kw):
      try:
        return func(*a, **kw)
      except Exception:
        STATE['last_tb'] = traceback.format_exc()[-4000:]
        raise
    wrapper.__name__ = name
    orig_register(name, wrapper)
  sb.register = register
  for name, fn in list(globals().items()):
    if name.startswith('verif_') and callable(fn):
      orig_register(name, fn)


if __name__ == '__main__':
  sb = sandbox_mod.get_default_sandbox()
  _register_all(sb)
  main_mod.run(sb)
