"""
Seeded generator of user-action bundles against a *live* document (DESIGN.md 3.3).

The model of the document is rebuilt from the metadata tables of the latest snapshot before every
bundle, so most generated actions are valid; a configurable share is deliberately invalid.
Every random choice comes from the `random.Random` given by the caller.
"""
import json
from vlib.snapshot import rows_of
from vlib import gen_formula

TYPES = ['Int', 'Numeric', 'Text', 'Bool', 'Choice', 'ChoiceList', 'Date', 'DateTime:UTC', 'Any']
WORDS = ['a', 'b', 'c', 'x', 'y', '', 'A', 'é', '1', '2.5', 'true', 'a b']
CHOICES = ['a', 'b', 'c', 'x']


def iref(v):
  """Metadata reference cell (normalised float) -> int."""
  if isinstance(v, (int, float)) and not isinstance(v, bool):
    return int(v)
  return 0


def dec_reflist(v):
  if isinstance(v, list) and v and v[0] == 'L':
    return [iref(x) for x in v[1:]]
  return []


class Model(object):
  """Plain-data view of the document, built from a snapshot."""
  def __init__(self, snap):
    T = rows_of(snap, '_grist_Tables')
    C = rows_of(snap, '_grist_Tables_column')
    self.tables = {}
    self.byref = {}
    self.colbyref = {}
    for r, t in sorted(T.items()):
      tab = {'ref': r, 'id': t['tableId'], 'summary': iref(t['summarySourceTable']),
             'raw': iref(t['rawViewSectionRef']), 'card': iref(t['recordCardViewSectionRef']),
             'primaryView': iref(t['primaryViewId']), 'cols': [], 'rows': []}
      self.tables[tab['id']] = tab
      self.byref[r] = tab
    for r, c in sorted(C.items(), key=lambda kv: (kv[1]['parentId'], kv[1]['parentPos'] if isinstance(kv[1]['parentPos'], float) else 0, kv[0])):
      p = iref(c['parentId'])
      if p in self.byref:
        col = {'ref': r, 'id': c['colId'], 'type': c['type'], 'isFormula': bool(c['isFormula']),
               'formula': c['formula'], 'summarySourceCol': iref(c['summarySourceCol']),
               'reverseCol': iref(c['reverseCol']), 'recalcWhen': iref(c['recalcWhen']),
               'recalcDeps': dec_reflist(c['recalcDeps']), 'displayCol': iref(c['displayCol']),
               'visibleCol': iref(c['visibleCol']), 'label': c['label'],
               'untie': bool(c['untieColIdFromLabel']), 'widgetOptions': c['widgetOptions'],
               'rules': dec_reflist(c['rules']), 'table': self.byref[p]}
        self.byref[p]['cols'].append(col)
        self.colbyref[r] = col
    for t in self.tables.values():
      if t['id'] in snap:
        t['rows'] = list(snap[t['id']][0])
    self.groupby_sources = set(c['summarySourceCol'] for c in self.colbyref.values() if c['summarySourceCol'])
    self.user_tables = [t for t in self.tables.values() if not t['summary']]
    self.summary_tables = [t for t in self.tables.values() if t['summary']]
    self.views = sorted(rows_of(snap, '_grist_Views'))
    S = rows_of(snap, '_grist_Views_section')
    self.sections = {r: {'ref': r, 'tableRef': iref(s['tableRef']), 'view': iref(s['parentId']),
                         'title': s['title']} for r, s in S.items()}
    F = rows_of(snap, '_grist_Views_section_field')
    self.fields = {r: {'ref': r, 'section': iref(f['parentId']), 'colRef': iref(f['colRef']),
                       'displayCol': iref(f['displayCol'])} for r, f in F.items()}
    self.pages = sorted(rows_of(snap, '_grist_Pages'))
    self.filters = sorted(rows_of(snap, '_grist_Filters')) if '_grist_Filters' in snap else []
    self.acl_resources = sorted(rows_of(snap, '_grist_ACLResources')) if '_grist_ACLResources' in snap else []
    self.acl_rules = sorted(rows_of(snap, '_grist_ACLRules')) if '_grist_ACLRules' in snap else []
    self.triggers = sorted(rows_of(snap, '_grist_Triggers')) if '_grist_Triggers' in snap else []
    self.snap = snap

  def table(self, tid):
    return self.tables.get(tid)


def vis(c):
  return c['id'] not in ('manualSort', 'group') and not c['id'].startswith('gristHelper_')


def groupable(c):
  """Columns offered as summary group-by: not formula columns of type Any (they may hold records,
  record sets, lists or errors, for which the summary properties say nothing)."""
  return vis(c) and not (c['isFormula'] and c['type'] == 'Any')


def datacols(t):
  return [c for c in t['cols'] if vis(c) and not c['isFormula'] and not c['summarySourceCol']]


# Default weights of action kinds. A profile overrides some of them (0 switches a kind off).
DEFAULT_WEIGHTS = {
  'add_records': 16, 'update_records': 14, 'remove_records': 6, 'replace_data': 0, 'upsert': 0,
  'add_table': 3, 'add_empty_table': 0.5, 'add_raw_table': 0.3, 'remove_table': 1, 'rename_table': 1.5,
  'duplicate_table': 0.7,
  'add_data_column': 4, 'add_formula_column': 6, 'add_trigger_column': 1.5, 'add_ref_column': 3,
  'add_visible_column': 0.5, 'add_hidden_column': 0.3,
  'remove_column': 2.5, 'rename_column': 3, 'modify_type': 3.5, 'modify_formula': 3,
  'to_formula': 1, 'to_data': 1, 'modify_label': 1, 'modify_widget': 0.7, 'modify_recalc': 0.7,
  'meta_update_col': 1.5, 'meta_update_table': 0.5,
  'set_display_formula': 1, 'add_empty_rule': 0.7, 'add_reverse': 1.2, 'copy_from_column': 0.5,
  'rename_choices': 0.5, 'convert_from_column': 0.3, 'set_visible_col': 0.8,
  'add_view': 0.6, 'create_section': 1.2, 'create_summary': 2.5, 'update_summary': 1,
  'detach_summary': 0.4, 'remove_section': 0.6, 'remove_view': 0.4, 'remove_page': 0.3,
  'remove_field': 0.4, 'add_field': 0.4, 'add_filter': 0.3, 'add_acl': 0.3, 'add_trigger': 0.2,
  'calculate': 0.5, 'invalid': 3, 'remove_stale': 0.2,
}


class Gen(object):
  def __init__(self, rnd, weights=None, flags=None):
    self.r = rnd
    self.n = 0
    self.w = dict(DEFAULT_WEIGHTS)
    if weights:
      self.w.update(weights)
    # flags: max_tables, max_rows, wrong (share of wrong-typed values), formula_kinds, no_stringify
    self.flags = {'max_tables': 5, 'max_cols': 9, 'max_rows': 12, 'wrong': 0.1, 'bundle_multi': 0.3,
                  'formula_off': (), 'types': TYPES, 'explicit_ids': 0.1, 'neg_ids': 0.1,
                  # triggers of open findings (known_findings.jsonl) are off unless a check turns them on
                  'invalid_off': ('bad_type', 'short_bulk')}
    if flags:
      self.flags.update(flags)
    self.kinds = sorted(k for k, v in self.w.items() if v > 0)
    self.fgen = gen_formula.FormulaGen(rnd, off=self.flags['formula_off'])

  # -------------------------------------------------------------------------------- helpers
  def name(self, prefix):
    self.n += 1
    r = self.r
    k = r.random()
    past = sorted(getattr(self, 'past_names', ()))
    if past and r.random() < 0.12:
      return r.choice(past)
    if k < 0.55:
      return '%s%d' % (prefix, self.n)
    if k < 0.7:
      return '%s_%d' % (prefix.lower(), self.n)
    if k < 0.8:
      return '%s %d' % (prefix, self.n)
    if k < 0.85:
      return r.choice(['if', 'class', '1st', '_x', 'é%d' % self.n, 'id', 'group', 'manualSort', 'None'])
    if k < 0.9:
      return None
    return '%s%d' % (prefix, r.randint(1, 3))    # likely collision

  def pick_type(self, m, refs=0.3):
    r = self.r
    uts = m.user_tables
    if uts and r.random() < refs:
      return r.choice(['Ref:', 'RefList:']) + r.choice(uts)['id']
    return r.choice(self.flags['types'])

  def value(self, typ, m, wrong=None):
    r = self.r
    if wrong is None:
      wrong = self.flags['wrong']
    if r.random() < wrong:
      return r.choice(self.flags.get('wrong_values') or ['junk', '', None, 3, 2.5, True, ['L', 'q', 1], 'x y', -1, ['L']])
    base = typ.split(':')[0]
    if base == 'Int':
      return r.randint(-2, 5)
    if base == 'Numeric':
      return r.choice([0, 1, 1.5, -2.25, 3, 1e3])
    if base in ('Text', 'Any'):
      return r.choice(WORDS)
    if base == 'Choice':
      return r.choice(CHOICES + [''])
    if base == 'Bool':
      return r.choice([True, False])
    if base == 'ChoiceList':
      return r.choice([None, ['L', 'a'], ['L', 'a', 'b'], ['L', 'b', 'c', 'a'], ['L', 'x'], ['L', 'c', 'c'], ['L', 'b', 'a', 'b']])
    if base == 'Date':
      return r.choice([None, 86400 * r.randint(0, 20000)])
    if base == 'DateTime':
      return r.choice([None, 1500000000 + r.randint(0, 10 ** 6)])
    if base in ('Ref', 'RefList'):
      t = m.tables.get(typ.split(':', 1)[1]) if ':' in typ else None
      rows = t['rows'] if t else []
      if base == 'Ref':
        return r.choice(rows + [0]) if rows else 0
      k = r.randint(0, min(3, len(rows)))
      if k and r.random() < 0.12:
        x = r.choice(rows)
        return ['L', x] + r.sample(rows, k - 1) + [x]     # a repeated element
      return (['L'] + r.sample(rows, k)) if k else None
    if base in ('PositionNumber', 'ManualSortPos'):
      return r.choice([0.5, 1.5, 2.5, 10, 1])
    return None

  def formula(self, m, t, self_col=None):
    return self.fgen.formula(m, t, self_col)

  # -------------------------------------------------------------------------------- bundles
  def bundle(self, m):
    r = self.r
    # Remember every column / table id ever seen: reusing a name that formulas may still mention
    # (after a removal or rename) is a deliberate pattern.
    now = set()
    for t in m.tables.values():
      now.add(t['id'])
      for c in t['cols']:
        if vis(c):
          now.add(c['id'])
    self.past_names = (getattr(self, 'past_names', set()) | getattr(self, 'prev_names', set())) - now
    self.prev_names = now
    pat = self.flags.get('patterns', 0)
    if pat and r.random() < pat:
      # Stream B (off by default, so the default streams are unchanged): multi-step bundle patterns
      # that need several cooperating actions to manifest (see pattern_bundle).
      b = self.pattern_bundle(m)
      if b:
        self.last_kind = 'pattern'
        pc = self.__dict__.setdefault('pattern_counts', {})
        pc[self.last_pattern] = pc.get(self.last_pattern, 0) + 1
        return b
    n = 1 if r.random() > self.flags['bundle_multi'] else r.randint(2, 4)
    out = []
    # Half of the multi-action bundles concentrate on one table (several edits of the same cells
    # and columns within one bundle).
    self.focus = None
    if n > 1 and m.user_tables and r.random() < 0.5:
      self.focus = r.choice(m.user_tables)['id']
    for i in range(n):
      a = self.action(m, first=(i == 0))
      if a is not None:
        out.append(a)
    self.focus = None
    return out or [['Calculate']]

  def pattern_bundle(self, m):
    """Bundles in which several actions touch the same rows / cells / columns (flag 'patterns')."""
    r = self.r
    t = self._table(m)
    if t is None:
      return None
    tid = t['id']
    dc = datacols(t)
    rows = t['rows']
    def vals(n=1, cols=None):
      return {c['id']: [self.value(c['type'], m) for _ in range(n)] for c in (cols if cols is not None else dc) if r.random() < 0.8}
    def one(cv):
      return {c: v[0] for c, v in cv.items()}
    k = r.choice(['remove_add_same_id', 'add_remove_add', 'replace_keep_ids', 'type_and_formula', 'formula_then_type',
                  'update_twice', 'update_then_upsert', 'rename_remove_formula', 'addcol_then_fill', 'remove_add_column',
                  'add_update_remove', 'update_then_remove', 'type_twice', 'to_data_and_type'])
    self.last_pattern = k
    if k == 'remove_add_same_id' and rows:
      x = r.choice(rows[-2:])
      explicit = x if (r.random() < 0.5 or x != max(rows)) else None
      return [['RemoveRecord', tid, x], ['AddRecord', tid, explicit, one(vals())]]
    if k == 'add_remove_add':
      x = max(rows or [0]) + 1
      return [['AddRecord', tid, x, one(vals())], ['RemoveRecord', tid, x], ['AddRecord', tid, r.choice([x, None]), one(vals())]]
    if k == 'replace_keep_ids' and rows:
      keep = sorted(r.sample(rows, min(len(rows), r.randint(1, 3))))
      new = keep + ([max(rows) + 1] if r.random() < 0.5 else [])
      return [['ReplaceTableData', tid, new, vals(len(new))]]
    if k in ('type_and_formula', 'formula_then_type', 'type_twice', 'to_data_and_type'):
      free = lambda c: vis(c) and not c['summarySourceCol'] and not c['reverseCol'] and c['ref'] not in m.groupby_sources
      if k == 'to_data_and_type':
        cs = [c for c in t['cols'] if free(c) and c['isFormula']]
      else:
        cs = [c for c in t['cols'] if free(c) and not c['isFormula']]
      if not cs:
        return None
      c = r.choice(cs)
      typ = r.choice(['Int', 'Numeric', 'Text', 'Bool', 'Any', 'Choice', 'Date'])
      if k == 'type_and_formula':
        return [['ModifyColumn', tid, c['id'], {'type': typ, 'isFormula': True, 'formula': self.formula(m, t, c['id'])}]]
      if k == 'formula_then_type':
        return [['ModifyColumn', tid, c['id'], {'isFormula': True, 'formula': self.formula(m, t, c['id'])}],
                ['ModifyColumn', tid, c['id'], {'type': typ}]]
      if k == 'to_data_and_type':
        return r.choice([[['ModifyColumn', tid, c['id'], {'isFormula': False, 'type': typ}]],
                         [['ModifyColumn', tid, c['id'], {'isFormula': False}], ['ModifyColumn', tid, c['id'], {'type': typ}]]])
      return [['ModifyColumn', tid, c['id'], {'type': typ}],
              ['ModifyColumn', tid, c['id'], {'type': r.choice(['Int', 'Numeric', 'Text', 'Bool', 'Any'])}]]
    if k == 'update_twice' and rows and dc:
      x = r.choice(rows)
      c = r.choice(dc)
      return [['UpdateRecord', tid, x, {c['id']: self.value(c['type'], m)}],
              ['UpdateRecord', tid, x, {c['id']: self.value(c['type'], m)}]]
    if k == 'update_then_upsert' and rows and dc and self.flags.get('pattern_upsert', True):
      x = r.choice(rows)
      c = r.choice(dc)
      look = [cc for cc in t['cols'] if vis(cc) and not cc['summarySourceCol'] and cc['type'].split(':')[0] in ('Int', 'Numeric', 'Text', 'Any', 'Bool', 'Choice')]
      if not look:
        return None
      lc = r.choice(look)
      rest = [cc for cc in dc if cc is not lc]
      cv = {cc['id']: self.value(cc['type'], m, 0) for cc in rest if r.random() < 0.6}
      return [['UpdateRecord', tid, x, {c['id']: self.value(c['type'], m)}],
              ['AddOrUpdateRecord', tid, {lc['id']: self.value(lc['type'], m, 0)}, cv, {}]]
    if k == 'rename_remove_formula':
      cs = [c for c in t['cols'] if vis(c) and not c['summarySourceCol'] and c['ref'] not in m.groupby_sources]
      if len(cs) < 2:
        return None
      a, b = r.sample(cs, 2)
      out = [['RenameColumn', tid, a['id'], self.name('N') or 'Nn']]
      out.append(['RemoveColumn', tid, b['id']])
      fs = [c for c in t['cols'] if vis(c) and c['isFormula'] and c is not a and c is not b and not c['summarySourceCol']]
      if fs:
        out.append(['ModifyColumn', tid, r.choice(fs)['id'], {'formula': self.formula(m, t)}])
      r.shuffle(out)
      return out
    if k == 'addcol_then_fill' and self._room(t):
      cid = 'P%d' % self.n
      self.n += 1
      typ = self.pick_type(m, 0.2)
      out = [['AddColumn', tid, cid, {'type': typ, 'isFormula': False}]]
      if rows:
        xs = r.sample(rows, min(len(rows), 2))
        out.append(['BulkUpdateRecord', tid, xs, {cid: [self.value(typ, m) for _ in xs]}])
      out.append(['AddRecord', tid, None, {cid: self.value(typ, m)}])
      return out
    if k == 'remove_add_column':
      cs = [c for c in t['cols'] if vis(c) and not c['summarySourceCol'] and c['ref'] not in m.groupby_sources]
      if not cs:
        return None
      c = r.choice(cs)
      info = r.choice([{'type': self.pick_type(m, 0), 'isFormula': False},
                       {'type': 'Any', 'isFormula': True, 'formula': self.formula(m, t, c['id'])}])
      return [['RemoveColumn', tid, c['id']], ['AddColumn', tid, c['id'], info]]
    if k == 'add_update_remove':
      x = max(rows or [0]) + 1
      out = [['AddRecord', tid, x, one(vals())]]
      if dc:
        c = r.choice(dc)
        out.append(['UpdateRecord', tid, x, {c['id']: self.value(c['type'], m)}])
      if r.random() < 0.6:
        out.append(['RemoveRecord', tid, x])
      return out
    if k == 'update_then_remove' and rows and dc:
      x = r.choice(rows)
      c = r.choice(dc)
      return [['UpdateRecord', tid, x, {c['id']: self.value(c['type'], m)}], ['RemoveRecord', tid, x]]
    return None

  # Kinds that write metadata references from the (pre-bundle) model: only as a bundle's first action,
  # so that the generator itself never stores a reference to something an earlier action removed.
  META_WRITERS = ('add_field', 'add_filter', 'add_acl', 'add_trigger', 'set_visible_col', 'set_display_formula',
                  'add_empty_rule', 'modify_recalc', 'add_trigger_column')

  def action(self, m, first=True):
    r = self.r
    for _ in range(30):
      kind = r.choices(self.kinds, [self.w[k] for k in self.kinds])[0]
      if not first and kind in self.META_WRITERS:
        continue
      if not m.user_tables and kind not in ('add_table', 'add_empty_table', 'add_raw_table'):
        kind = 'add_table'
      a = getattr(self, 'k_' + kind)(m)
      if a is not None:
        self.last_kind = kind
        return a
    return ['Calculate']

  def _table(self, m, summary_ok=False, need_rows=False):
    r = self.r
    pool = m.user_tables
    focus = getattr(self, 'focus', None)
    if focus and r.random() < 0.7:
      ft = m.tables.get(focus)
      if ft and (summary_ok or not ft['summary']) and (ft['rows'] or not need_rows):
        return ft
    if summary_ok and m.summary_tables and r.random() < 0.25:
      pool = m.summary_tables
    if need_rows:
      pool = [t for t in pool if t['rows']]
    return r.choice(pool) if pool else None

  # ---- record actions
  def k_add_records(self, m):
    r = self.r
    t = self._table(m)
    if t is None or len(t['rows']) >= self.flags['max_rows']:
      return None
    n = r.randint(1, 3)
    cv = {}
    for c in datacols(t):
      if r.random() < 0.8:
        cv[c['id']] = [self.value(c['type'], m) for _ in range(n)]
    ids = [None] * n
    k = r.random()
    if k < self.flags['explicit_ids']:
      base = max(t['rows'] or [0]) + r.randint(1, 5)
      ids = [base + i for i in range(n)]
    elif k < self.flags['explicit_ids'] + self.flags['neg_ids']:
      ids = [-(i + 1) for i in range(n)]
    if r.random() < 0.15 and 'manualSort' in [c['id'] for c in t['cols']]:
      cv['manualSort'] = [r.choice([0.5, 1.5, 2.5, 1, 2]) for _ in range(n)]
    if n == 1 and r.random() < 0.5:
      return ['AddRecord', t['id'], ids[0], {c: v[0] for c, v in cv.items()}]
    return ['BulkAddRecord', t['id'], ids, cv]

  def k_update_records(self, m):
    r = self.r
    t = self._table(m, need_rows=True)
    if t is None:
      return None
    dc = datacols(t)
    if not dc:
      return None
    rows = r.sample(t['rows'], min(len(t['rows']), r.randint(1, 3)))
    cs = r.sample(dc, min(len(dc), r.randint(1, 2)))
    if len(rows) == 1 and r.random() < 0.5:
      return ['UpdateRecord', t['id'], rows[0], {c['id']: self.value(c['type'], m) for c in cs}]
    cv = {c['id']: [self.value(c['type'], m) for _ in rows] for c in cs}
    if r.random() < 0.05:
      cv['manualSort'] = [r.choice([0.5, 1.5, 2.5, 1, 2]) for _ in rows]
    return ['BulkUpdateRecord', t['id'], rows, cv]

  def k_remove_records(self, m):
    r = self.r
    t = self._table(m, need_rows=True)
    if t is None:
      return None
    rows = r.sample(t['rows'], min(len(t['rows']), r.randint(1, 2)))
    if len(rows) == 1 and r.random() < 0.5:
      return ['RemoveRecord', t['id'], rows[0]]
    return ['BulkRemoveRecord', t['id'], rows]

  def k_replace_data(self, m):
    r = self.r
    t = self._table(m)
    if t is None:
      return None
    rows = list(range(1, r.randint(1, 4)))
    cv = {}
    for c in datacols(t):
      if r.random() < 0.8:
        cv[c['id']] = [self.value(c['type'], m) for _ in rows]
    return ['ReplaceTableData', t['id'], rows, cv]

  def k_upsert(self, m):
    r = self.r
    t = self._table(m)
    if t is None:
      return None
    dc = datacols(t)
    if not dc:
      return None
    c = r.choice(dc)
    rest = [x for x in dc if x is not c]
    cv = {}
    if rest and r.random() < 0.6:
      c2 = r.choice(rest)
      cv[c2['id']] = self.value(c2['type'], m, 0)
    opts = {}
    if r.random() < 0.3:
      opts['on_many'] = r.choice(['first', 'all', 'none'])
    return ['AddOrUpdateRecord', t['id'], {c['id']: self.value(c['type'], m, 0)}, cv, opts]

  # ---- tables
  def k_add_table(self, m):
    r = self.r
    if len(m.user_tables) >= self.flags['max_tables']:
      return None
    cols = []
    for i in range(r.randint(1, 4)):
      typ = self.pick_type(m)
      cols.append({'id': r.choice([chr(65 + i), 'c%d' % i]), 'type': typ, 'isFormula': False})
    return ['AddTable', self.name('Tab'), cols]

  def k_add_empty_table(self, m):
    if len(m.user_tables) >= self.flags['max_tables']:
      return None
    return ['AddEmptyTable', self.name('Emp')]

  def k_add_raw_table(self, m):
    if len(m.user_tables) >= self.flags['max_tables']:
      return None
    return ['AddRawTable', self.name('Raw')]

  def k_remove_table(self, m):
    if len(m.user_tables) < 2:
      return None
    return ['RemoveTable', self.r.choice(m.user_tables)['id']]

  def k_rename_table(self, m):
    t = self._table(m)
    return ['RenameTable', t['id'], self.name('Ren') or 'Renamed']

  def k_duplicate_table(self, m):
    if len(m.user_tables) >= self.flags['max_tables']:
      return None
    t = self._table(m)
    return ['DuplicateTable', t['id'], self.name('Dup') or 'Dup', self.r.random() < 0.5]

  # ---- columns
  def _room(self, t):
    return len(t['cols']) < self.flags['max_cols']

  def k_add_data_column(self, m):
    t = self._table(m)
    if t is None or not self._room(t):
      return None
    return ['AddColumn', t['id'], self.name('D'), {'type': self.pick_type(m, 0), 'isFormula': False}]

  def k_add_ref_column(self, m):
    t = self._table(m)
    if t is None or not self._room(t):
      return None
    typ = self.r.choice(['Ref:', 'RefList:']) + self.r.choice(m.user_tables)['id']
    info = {'type': typ, 'isFormula': False}
    if self.r.random() < self.flags.get('ref_default_formula', 0.15):
      # a reference column with a default-value formula (a data column that has a formula)
      info['formula'] = self.r.choice(['1', '2']) if typ.startswith('Ref:') else self.r.choice(['[1]', '[2, 1]'])
    return ['AddColumn', t['id'], self.name('R'), info]

  def k_add_formula_column(self, m):
    r = self.r
    t = self._table(m, summary_ok=True)
    if t is None or not self._room(t):
      return None
    info = {'isFormula': True, 'formula': self.formula(m, t)}
    if not t['summary'] or r.random() < 0.5:
      info['type'] = r.choice(['Any', 'Any', 'Any', 'Int', 'Numeric'])
    return ['AddColumn', t['id'], self.name('F'), info]

  def k_add_trigger_column(self, m):
    r = self.r
    t = self._table(m)
    if t is None or not self._room(t):
      return None
    info = {'type': r.choice(['Int', 'Numeric', 'Text', 'Any']), 'isFormula': False,
            'formula': self.fgen.trigger_formula(m, t), 'recalcWhen': r.choice([0, 0, 1, 2])}
    if info['recalcWhen'] == 0 and r.random() < 0.7:
      dc = [c for c in t['cols'] if vis(c)]
      if dc:
        info['recalcDeps'] = [c['ref'] for c in r.sample(dc, min(len(dc), r.randint(1, 2)))]
    return ['AddColumn', t['id'], self.name('G'), info]

  def k_add_visible_column(self, m):
    t = self._table(m)
    if t is None or not self._room(t):
      return None
    return ['AddVisibleColumn', t['id'], self.name('V'), {'type': self.pick_type(m, 0.2), 'isFormula': False}]

  def k_add_hidden_column(self, m):
    t = self._table(m)
    if t is None or not self._room(t):
      return None
    return ['AddHiddenColumn', t['id'], self.name('H'), {'type': 'Any', 'isFormula': True, 'formula': self.formula(m, t)}]

  def _col(self, m, pred=None, summary_ok=False):
    r = self.r
    for _ in range(8):
      t = self._table(m, summary_ok=summary_ok)
      if t is None:
        return None, None
      cs = [c for c in t['cols'] if vis(c) and not c['summarySourceCol'] and (pred is None or pred(c))]
      if cs:
        return t, r.choice(cs)
    return None, None

  def k_remove_column(self, m):
    t, c = self._col(m, summary_ok=True)
    if c is None:
      return None
    return ['RemoveColumn', t['id'], c['id']]

  def wanted_names(self, m, t):
    """Column ids that some formula mentions ($x, .x, x=) but that table t does not have."""
    import re
    have = set(c['id'] for c in t['cols']) | {'id', 'lookupRecords', 'lookupOne', 'all', 'find', 'lt', 'le', 'gt', 'ge', 'eq'}
    want = set()
    for c in m.colbyref.values():
      if c['formula']:
        for mo in re.finditer(r'[$.]([A-Za-z_][A-Za-z0-9_]*)|\b([A-Za-z_][A-Za-z0-9_]*)=', c['formula']):
          name = mo.group(1) or mo.group(2)
          if name and name not in have and not name[0].isdigit() and len(name) < 12:
            want.add(name)
    return sorted(want)

  def k_rename_column(self, m):
    t, c = self._col(m, summary_ok=True)
    if c is None:
      return None
    if self.r.random() < 0.2:
      w = self.wanted_names(m, t)
      if w:
        return ['RenameColumn', t['id'], c['id'], self.r.choice(w)]
    return ['RenameColumn', t['id'], c['id'], self.name('N') or 'Rn']

  def k_add_field(self, m):
    """Show a column in a section (what the UI does when a hidden column is un-hidden), including
    the 'group' column of summary tables."""
    r = self.r
    ss = [s for s in m.sections.values() if s['tableRef'] in m.byref]
    if not ss:
      return None
    sums = [s for s in ss if m.byref[s['tableRef']]['summary'] and s['view']]
    s = r.choice(sums) if sums and r.random() < 0.6 else r.choice(ss)
    t = m.byref[s['tableRef']]
    cols = [c for c in t['cols'] if c['id'] != 'manualSort' and not c['id'].startswith('gristHelper_')]
    if not cols:
      return None
    grp = [c for c in cols if c['id'] == 'group']
    c = grp[0] if grp and r.random() < 0.5 else r.choice(cols)
    shown = set(f['colRef'] for f in m.fields.values() if f['section'] == s['ref'])
    if c['ref'] in shown and r.random() < 0.8:
      return None
    return ['AddRecord', '_grist_Views_section_field', None, {'parentId': s['ref'], 'colRef': c['ref']}]

  def k_modify_type(self, m):
    r = self.r
    t, c = self._col(m, summary_ok=True)
    if c is None:
      return None
    if c['ref'] in m.groupby_sources:
      # A group-by source column only moves between scalar types (how lists held in a column of a
      # non-list type should group is not something the summary properties define).
      if c['type'].split(':')[0] in ('ChoiceList', 'RefList'):
        return None
      return ['ModifyColumn', t['id'], c['id'], {'type': r.choice(['Int', 'Numeric', 'Text', 'Bool', 'Choice', 'Date'])}]
    if c['isFormula']:
      return ['ModifyColumn', t['id'], c['id'], {'type': r.choice(['Any', 'Int', 'Numeric', 'Text'])}]
    return ['ModifyColumn', t['id'], c['id'], {'type': self.pick_type(m)}]

  def k_modify_formula(self, m):
    t, c = self._col(m, lambda c: c['isFormula'], summary_ok=True)
    if c is None:
      return None
    return ['ModifyColumn', t['id'], c['id'], {'formula': self.formula(m, t, c['id'])}]

  def k_to_formula(self, m):
    t, c = self._col(m, lambda c: not c['isFormula'] and not c['reverseCol'])
    if c is None:
      return None
    info = {'isFormula': True, 'formula': self.formula(m, t, c['id'])}
    if self.r.random() < 0.4:
      info['type'] = self.r.choice(['Any', 'Int', 'Numeric', 'Text'])
    return ['ModifyColumn', t['id'], c['id'], info]

  def k_to_data(self, m):
    t, c = self._col(m, lambda c: c['isFormula'])
    if c is None:
      return None
    return ['ModifyColumn', t['id'], c['id'], {'isFormula': False}]

  def k_modify_label(self, m):
    r = self.r
    t, c = self._col(m)
    if c is None:
      return None
    info = {'label': self.name('Lab') or 'L'}
    if r.random() < 0.3:
      info['untieColIdFromLabel'] = r.random() < 0.5
    return ['ModifyColumn', t['id'], c['id'], info]

  def k_modify_widget(self, m):
    r = self.r
    t, c = self._col(m)
    if c is None:
      return None
    wo = r.choice(['', '{}', json.dumps({'choices': CHOICES[:r.randint(1, 4)]}), json.dumps({'alignment': 'left'})])
    return ['ModifyColumn', t['id'], c['id'], {'widgetOptions': wo}]

  def k_modify_recalc(self, m):
    r = self.r
    t, c = self._col(m, lambda c: not c['isFormula'] and c['formula'])
    if c is None:
      return None
    info = {'recalcWhen': r.choice([0, 1, 2])}
    dc = [x for x in t['cols'] if vis(x)]
    if r.random() < 0.6 and dc:
      info['recalcDeps'] = [x['ref'] for x in r.sample(dc, min(len(dc), r.randint(1, 2)))]
    elif r.random() < 0.3:
      info['recalcDeps'] = None
    return ['ModifyColumn', t['id'], c['id'], info]

  def k_meta_update_col(self, m):
    r = self.r
    t, c = self._col(m, summary_ok=True)
    if c is None:
      return None
    k = r.random()
    if k < 0.3:
      vals = {'colId': self.name('M') or 'Mx'}
    elif k < 0.5:
      vals = {'label': self.name('ML') or 'ml'}
      if r.random() < 0.4:
        vals['untieColIdFromLabel'] = r.random() < 0.5
    elif k < 0.65:
      if c['ref'] in m.groupby_sources:
        return None
      vals = {'type': 'Any' if c['isFormula'] else self.pick_type(m)}
    elif k < 0.8:
      if c['isFormula']:
        vals = {'formula': self.formula(m, t, c['id'])}
      elif c['reverseCol']:
        return None
      else:
        vals = {'isFormula': True, 'formula': self.formula(m, t, c['id'])}
    elif k < 0.9:
      vals = {'description': r.choice(['', 'd1', 'd2'])}
    else:
      vals = {'widgetOptions': r.choice(['', '{"a": 1}'])}
    if r.random() < 0.5:
      return ['UpdateRecord', '_grist_Tables_column', c['ref'], vals]
    return ['BulkUpdateRecord', '_grist_Tables_column', [c['ref']], {k: [v] for k, v in vals.items()}]

  def k_meta_update_table(self, m):
    r = self.r
    t = self._table(m)
    if r.random() < 0.6:
      return ['UpdateRecord', '_grist_Tables', t['ref'], {'tableId': self.name('MT') or 'Mt'}]
    sec = t['raw']
    if sec:
      return ['UpdateRecord', '_grist_Views_section', sec, {'title': self.name('Title') or ''}]
    return None

  def k_set_display_formula(self, m):
    r = self.r
    t, c = self._col(m, lambda c: c['type'].startswith(('Ref:', 'RefList:')))
    if c is None:
      return None
    tgt = m.tables.get(c['type'].split(':', 1)[1])
    if not tgt:
      return None
    tc = [x for x in tgt['cols'] if vis(x)]
    if not tc:
      return None
    f = '$%s.%s' % (c['id'], r.choice(tc)['id']) if r.random() < 0.85 else ''
    if r.random() < 0.7:
      return ['SetDisplayFormula', t['id'], None, c['ref'], f]
    fl = [x for x in m.fields.values() if x['colRef'] == c['ref']]
    if not fl:
      return None
    return ['SetDisplayFormula', t['id'], r.choice(fl)['ref'], None, f]

  def k_set_visible_col(self, m):
    r = self.r
    t, c = self._col(m, lambda c: c['type'].startswith(('Ref:', 'RefList:')))
    if c is None:
      return None
    tgt = m.tables.get(c['type'].split(':', 1)[1])
    if not tgt:
      return None
    tc = [x for x in tgt['cols'] if vis(x)]
    if not tc:
      return None
    return ['UpdateRecord', '_grist_Tables_column', c['ref'], {'visibleCol': r.choice(tc + [{'ref': 0}])['ref']}]

  def k_add_empty_rule(self, m):
    r = self.r
    t, c = self._col(m)
    if c is None:
      return None
    k = r.random()
    if k < 0.6:
      return ['AddEmptyRule', t['id'], 0, c['ref']]
    fl = [x for x in m.fields.values() if x['colRef'] == c['ref']]
    if fl and k < 0.85:
      return ['AddEmptyRule', t['id'], r.choice(fl)['ref'], 0]
    return None

  def k_add_reverse(self, m):
    t, c = self._col(m, lambda c: not c['isFormula'] and c['type'].startswith(('Ref:', 'RefList:')) and not c['reverseCol'])
    if c is None:
      return None
    return ['AddReverseColumn', t['id'], c['id']]

  def k_copy_from_column(self, m):
    r = self.r
    t = self._table(m)
    if t is None:
      return None
    cs = [c for c in t['cols'] if vis(c)]
    ds = datacols(t)
    if not cs or not ds:
      return None
    return ['CopyFromColumn', t['id'], r.choice(cs)['id'], r.choice(ds)['id'], None]

  def k_convert_from_column(self, m):
    r = self.r
    t = self._table(m)
    if t is None:
      return None
    ds = datacols(t)
    if len(ds) < 2:
      return None
    a, b = r.sample(ds, 2)
    return ['ConvertFromColumn', t['id'], a['id'], b['id'], b['type'], '', 0]

  def k_rename_choices(self, m):
    r = self.r
    t, c = self._col(m, lambda c: c['type'] in ('Choice', 'ChoiceList') and not c['isFormula'])
    if c is None:
      return None
    ren = r.choice([{'a': 'b', 'b': 'a'}, {'a': 'z'}, {'q': 'r'}, {'a': 'b', 'b': 'c', 'c': 'a'}, {'x': 'x'}, {'a': 'c', 'b': 'c'}, {'a': 'y', 'b': 'y'}])
    return ['RenameChoices', t['id'], c['id'], ren]

  # ---- views / sections / summaries
  def k_add_view(self, m):
    t = self._table(m)
    return ['AddView', t['id'], self.r.choice(['raw_data', 'empty']), self.name('View') or 'v']

  def k_create_section(self, m):
    r = self.r
    t = self._table(m, summary_ok=False)
    view = r.choice(m.views + [0]) if m.views else 0
    return ['CreateViewSection', t['ref'], view, r.choice(['record', 'detail', 'chart']), None, None]

  def k_create_summary(self, m):
    r = self.r
    t = self._table(m)
    if t is None:
      return None
    cols = [c for c in t['cols'] if groupable(c)]
    gb = [c['ref'] for c in r.sample(cols, min(len(cols), r.randint(0, 2)))]
    view = r.choice(m.views + [0]) if m.views else 0
    return ['CreateViewSection', t['ref'], view, 'record', gb, None]

  def _summary_sections(self, m):
    sts = set(t['ref'] for t in m.summary_tables)
    return [s for s in m.sections.values() if s['tableRef'] in sts and s['view']]

  def k_update_summary(self, m):
    r = self.r
    ss = self._summary_sections(m)
    if not ss:
      return None
    s = r.choice(ss)
    st = m.byref.get(s['tableRef'])
    src = m.byref.get(st['summary']) if st else None
    if not src:
      return None
    cols = [c for c in src['cols'] if groupable(c)]
    gb = [c['ref'] for c in r.sample(cols, min(len(cols), r.randint(0, 2)))]
    return ['UpdateSummaryViewSection', s['ref'], gb]

  def k_detach_summary(self, m):
    ss = self._summary_sections(m)
    if not ss or len(m.user_tables) >= self.flags['max_tables']:
      return None
    return ['DetachSummaryViewSection', self.r.choice(ss)['ref']]

  def k_remove_section(self, m):
    r = self.r
    ss = [s for s in m.sections.values() if s['view']]
    if not ss:
      return None
    s = r.choice(ss)
    if r.random() < 0.5:
      return ['RemoveViewSection', s['ref']]
    return ['RemoveRecord', '_grist_Views_section', s['ref']]

  def k_remove_view(self, m):
    r = self.r
    if not m.views:
      return None
    v = r.choice(m.views)
    if r.random() < 0.5:
      return ['RemoveView', v]
    return ['RemoveRecord', '_grist_Views', v]

  def k_remove_page(self, m):
    if not m.pages:
      return None
    return ['RemoveRecord', '_grist_Pages', self.r.choice(m.pages)]

  def k_remove_field(self, m):
    if not m.fields:
      return None
    return ['RemoveRecord', '_grist_Views_section_field', self.r.choice(sorted(m.fields))]

  def k_add_filter(self, m):
    r = self.r
    fl = [f for f in m.fields.values() if f['colRef'] in m.colbyref]
    if not fl:
      return None
    f = r.choice(fl)
    return ['AddRecord', '_grist_Filters', None, {'viewSectionRef': f['section'], 'colRef': f['colRef'],
            'filter': json.dumps({'included': r.sample(CHOICES, 2)}), 'pinned': False}]

  def k_add_acl(self, m):
    r = self.r
    t, c = self._col(m)
    if c is None:
      return None
    if r.random() < 0.5 or len(m.acl_resources) < 2:
      return ['AddRecord', '_grist_ACLResources', None, {'tableId': t['id'], 'colIds': r.choice(['*', c['id']])}]
    return ['AddRecord', '_grist_ACLRules', None, {'resource': r.choice(m.acl_resources),
            'aclFormula': r.choice(['rec.%s == 1' % c['id'], 'user.Access == "owners"', '$%s in ["a"]' % c['id'], 'not (']),
            'permissionsText': r.choice(['+R', '-U', 'all']), 'rulePos': float(r.randint(1, 100))}]

  def k_add_trigger(self, m):
    r = self.r
    t, c = self._col(m)
    if c is None:
      return None
    return ['AddRecord', '_grist_Triggers', None, {'tableRef': t['ref'], 'eventTypes': ['L', 'add', 'update'],
            'condition': json.dumps({'text': r.choice(['$%s == 1' % c['id'], 'rec.%s != oldRec.%s' % (c['id'], c['id'])])}),
            'actions': '[]', 'enabled': True, 'label': 'tr'}]

  def k_calculate(self, m):
    return ['Calculate']

  def k_remove_stale(self, m):
    return ['RemoveStaleObjects']

  # ---- deliberately invalid actions (C04 natural failures)
  def k_invalid(self, m):
    r = self.r
    t = self._table(m, summary_ok=True)
    if t is None:
      return None
    cols = [c for c in t['cols'] if vis(c)]
    fcols = [c for c in cols if c['isFormula']]
    gcols = [c for c in t['cols'] if c['summarySourceCol']]
    opts = []
    opts.append(['UpdateRecord', t['id'], 999, {}])
    opts.append(['RemoveRecord', t['id'], 998])
    opts.append(['AddRecord', 'NoSuchTable', None, {}])
    opts.append(['UpdateRecord', t['id'], (t['rows'] or [1])[0], {'NoSuchCol': 1}])
    opts.append(['AddColumn', 'NoSuchTable', 'x', {}])
    opts.append(['RemoveColumn', t['id'], 'NoSuchCol'])
    opts.append(['RenameColumn', t['id'], 'NoSuchCol', 'z'])
    opts.append(['RemoveTable', 'NoSuchTable'])
    opts.append(['RenameTable', 'NoSuchTable', 'Z'])
    opts.append(['ModifyColumn', t['id'], 'NoSuchCol', {'type': 'Int'}])
    if 'short_bulk' not in self.flags.get('invalid_off', ()):
      opts.append(['BulkAddRecord', t['id'], [None, None], {(cols[0]['id'] if cols else 'A'): [1]}])
    opts.append(['AddRecord', t['id'], 0, {}])
    opts.append(['BulkAddRecord', t['id'], [7, 7], {}])
    opts.append(['AddRecord', t['id'], 2000000, {}])
    opts.append(['ApplyDocActions', [['RemoveRecord', t['id'], 997], ['AddTable', t['id'], []]]])
    opts.append(['ApplyDocActions', [['AddColumn', t['id'], (cols[0]['id'] if cols else 'manualSort'), {'type': 'Int', 'isFormula': False, 'formula': ''}]]])
    opts.append(['CreateViewSection', 9999, 0, 'record', None, None])
    opts.append(['RemoveViewSection', 9999])
    opts.append(['UpdateSummaryViewSection', 9999, []])
    opts.append(['NoSuchAction', 1])
    opts.append(['AddRecord', t['id']])
    if fcols and t['rows'] and not t['summary']:
      opts.append(['UpdateRecord', t['id'], t['rows'][0], {fcols[0]['id']: 5}])
    if gcols and t['rows']:
      opts.append(['UpdateRecord', t['id'], t['rows'][0], {gcols[0]['id']: 'zz'}])
      opts.append(['RemoveColumn', t['id'], gcols[0]['id']])
      opts.append(['RenameColumn', t['id'], gcols[0]['id'], 'gg'])
    if t['summary']:
      opts.append(['RenameTable', t['id'], 'SumRen'])
      opts.append(['AddRecord', t['id'], None, {}])
    if t['raw']:
      opts.append(['RemoveViewSection', t['raw']])
    rc = [c for c in cols if c['type'].startswith('Ref')]
    if rc:
      opts.append(['AddRecord', t['id'], None, {rc[0]['id']: -77 if rc[0]['type'].startswith('Ref:') else ['L', -77]}])
    if cols and 'bad_type' not in self.flags.get('invalid_off', ()):
      opts.append(['ModifyColumn', t['id'], cols[0]['id'], {'type': 'Bogus'}])
    if cols and 'bad_recalc' not in self.flags.get('invalid_off', ()):
      opts.append(['ModifyColumn', t['id'], cols[0]['id'], {'recalcDeps': 5}])
    if cols and t['rows'] and 'partial_docaction' not in self.flags.get('invalid_off', ()):
      dc = datacols(t)
      if dc:
        opts.append(['ApplyDocActions', [['UpdateRecord', t['id'], t['rows'][0], {dc[0]['id']: self.value(dc[0]['type'], m, 0), 'Nope': 1}]]])
    # malformed raw doc actions (partial application inside a doc action), after a valid one
    dc = datacols(t)
    newid = max(t['rows'] or [0]) + 1
    if dc and not t['summary']:
      c0 = dc[0]
      v = self.value(c0['type'], m, 0)
      valid_first = r.choice([[], [['UpdateRecord', t['id'], t['rows'][0], {c0['id']: v}]] if t['rows'] else []])
      bad = [
        ['AddRecord', t['id'], newid, {c0['id']: v, 'Nope': 1}],
        ['BulkAddRecord', t['id'], [newid, newid + 1], {c0['id']: [v, v], 'Nope': [1, 2]}],
        ['ReplaceTableData', t['id'], [1], {c0['id']: [v], 'Nope': [1]}],
        ['RenameColumn', t['id'], c0['id'], 'manualSort'],
        ['ModifyColumn', t['id'], c0['id'], {'type': 'Bogus'}] if 'bad_type' not in self.flags.get('invalid_off', ()) else ['RemoveColumn', t['id'], 'Nope'],
        ['RemoveColumn', t['id'], 'Nope'],
        ['UpdateRecord', t['id'], 99999, {c0['id']: v}],
        ['RenameTable', t['id'], m.user_tables[0]['id'] if m.user_tables[0]['id'] != t['id'] else '_grist_Tables'],
        ['RenameTable', t['id'], 'class'],
        ['AddTable', 'BadT', [{'id': 'A', 'type': 'Reference', 'isFormula': False, 'formula': ''}]],
        ['AddColumn', t['id'], 'BadC', {'type': 'Ref:', 'isFormula': False, 'formula': ''}],
      ]
      for b in bad:
        opts.append(['ApplyDocActions', valid_first + [b]])
    opts.append(['AddTable', self.name('Bad') or 'Bad', [{'id': 'A', 'type': r.choice(['Reference', 'Ref:', 'Foo', '']), 'isFormula': False}]])
    return r.choice(opts)
