"""
History workloads: a seeded generator drives one engine process through the real pipe; monitors
observe every call/reply and the snapshots around each generated bundle (DESIGN.md 3.3/3.4).
"""
import json
import random
import hashlib

from vlib import snapshot, gen_doc, invariants
from vlib.client import EngineProc, EngineError, Watchdog, EngineDied
from vlib.shadow import Shadow, ShadowError


def action_kinds(bundle):
  return [a[0] if isinstance(a, list) and a else '?' for a in bundle]


def shape_hash(*parts):
  return hashlib.sha1(json.dumps(parts, sort_keys=True, default=repr).encode('utf8')).hexdigest()[:14]


def stored_shape(stored):
  """Structural shape of a stored-action list: kinds, tables and column sets (not the values)."""
  out = []
  for a in stored:
    cols = None
    if a[0] in ('BulkAddRecord', 'BulkUpdateRecord', 'AddRecord', 'UpdateRecord', 'ReplaceTableData'):
      cols = sorted(a[3]) if len(a) > 3 and isinstance(a[3], dict) else None
    out.append([a[0], a[1] if len(a) > 1 and isinstance(a[1], str) else None, cols])
  return out


class Ctx(object):
  def __init__(self, step, bundle, S0, S1, reply, err, kind):
    self.step = step
    self.bundle = bundle
    self.S0 = S0
    self.S1 = S1
    self.reply = reply
    self.err = err
    self.kind = kind


class History(object):
  def __init__(self, acc, seed, monitors, steps, weights=None, flags=None, proc_kw=None, setup=None,
               avoid_open_triggers=True):
    # avoid_open_triggers: a generated bundle that takes the document into the trigger state of an
    # open finding (DESIGN.md 3.6; invariants.open_finding_triggers: a summary table whose group-by
    # source column holds formula errors, a trigger formula depending on a formula column that holds
    # errors) is taken back with its own undo actions and
    # not shown to the monitors, so that a listed defect cannot surface as alarms of the relational
    # oracles that presuppose a fixpoint. Counted in the evidence; the finding itself is replayed
    # by its witness on every run.
    self.avoid_open_triggers = avoid_open_triggers
    self.cut_short = False
    self.acc = acc
    self.seed = seed
    self.rnd = random.Random(seed)
    self.gen = gen_doc.Gen(self.rnd, weights, flags)
    self.monitors = monitors
    self.steps = steps
    self.proc_kw = proc_kw or {}
    self.setup = setup
    self.proc = None
    self.log = []          # compact history for replays: (tag, actions, ok)
    self.broken = False    # set by a monitor when the document left the expected state
    self.step_no = 0

  # ------------------------------------------------------------------
  def apply(self, actions, tag='gen'):
    """Apply through the real exported function; feeds every successful reply to the monitors."""
    reply, err = self.proc.try_apply(actions)
    self.log.append([tag, actions, err is None])
    if reply is not None:
      for m in self.monitors:
        m.on_reply(self, actions, reply, tag)
    return reply, err

  def snap(self):
    return snapshot.take(self.proc)

  def violation(self, mech, summary, detail=None):
    import os
    d = {'history_seed': self.seed, 'step': self.step_no,
         'log_tail': list(self.log) if os.environ.get('VERIF_FULL_LOG') else self.log[-12:]}
    if detail:
      d.update(detail)
    self.acc.violation(mech, summary, d)

  def run(self):
    acc = self.acc
    with EngineProc(**self.proc_kw) as proc:
      self.proc = proc
      try:
        proc.call('load_empty')
        reply, err = self.apply([['InitNewDoc']], 'init')
        if err is not None:
          acc.inconclusive.append('InitNewDoc failed: %s' % err.text)
          return
        for m in self.monitors:
          m.start(self)
        if self.setup:
          self.setup(self)
        S = self.snap()
        for step in range(self.steps):
          self.step_no = step
          model = gen_doc.Model(S)
          bundle = self.gen.bundle(model)
          applied = None
          for m in self.monitors:
            res = m.before_bundle(self, bundle, S)
            if res is not None:
              S = res.get('S0', S)
              applied = res.get('applied', applied)
          if applied is not None:
            reply, err = applied     # a monitor already applied the bundle (fault enumeration)
          else:
            wire = json.loads(json.dumps(bundle))   # fresh objects: user actions mutate their arguments
            reply, err = self.apply(wire, 'gen')
          S1 = self.snap()
          trig = invariants.open_finding_triggers(S1) if self.avoid_open_triggers else None
          if trig:
            acc.count('bundles_taken_back_open_finding_trigger')
            for name in trig:
              acc.count('taken_back.' + name)
            if reply is not None:
              self.apply([['ApplyUndoActions', json.loads(json.dumps(reply.undo))]], 'take-back')
            S2 = self.snap()
            if reply is None or snapshot.diff(S, S2, maxn=1):
              # The trigger state could not be left exactly: everything later in this history would
              # be judged against a state shaped by the listed defect. Stop here (no final unwind).
              acc.count('histories_cut_short_open_finding_trigger')
              self.cut_short = True
              break
            continue
          ctx = Ctx(step, bundle, S, S1, reply, err, getattr(self.gen, 'last_kind', None))
          acc.count('bundles')
          acc.count('bundles_ok' if err is None else 'bundles_failed')
          for k in action_kinds(bundle):
            acc.seen('user_actions', k)
          if reply is not None:
            for a in reply.stored:
              acc.seen('doc_actions', a[0])
          else:
            acc.seen('failure_classes', err.cls)
          for m in self.monitors:
            m.after_bundle(self, ctx)
            if self.proc.dead:
              break
          S = self.snap() if any(m.MUTATES for m in self.monitors) else S1
        if not self.cut_short:
          for m in self.monitors:
            m.end(self)
        for k, v in self.gen.fgen.shapes.items():
          acc.count('formula_shape.' + k, v)
      except Watchdog as e:
        acc.inconclusive.append('watchdog in history seed %s step %s: %s' % (self.seed, self.step_no, e))
        proc.kill()
      except EngineDied as e:
        self.violation('engine_died', 'engine process died: %s' % e)
        proc.kill()


class Monitor(object):
  MUTATES = False
  def start(self, h): pass
  def before_bundle(self, h, bundle, S0): return None
  def on_reply(self, h, actions, reply, tag): pass
  def after_bundle(self, h, ctx): pass
  def end(self, h): pass


def nontrivial_hash(ctx):
  """A bundle is non-trivial if it succeeded, emitted >= 1 stored action and changed >= 1 cell."""
  if ctx.reply is None or not ctx.reply.stored:
    return None
  if snapshot.cells_changed(ctx.S0, ctx.S1) == 0:
    return None
  return shape_hash(action_kinds(ctx.bundle), stored_shape(ctx.reply.stored))


# ------------------------------------------------------------------------------------------
class ShadowMonitor(Monitor):
  """C02: replay every stored action into the independent interpreter and compare after bundles."""
  def __init__(self, classify=None):
    self.sh = Shadow()
    self.classify = classify
    self.ok = True

  def on_reply(self, h, actions, reply, tag):
    try:
      for a in reply.stored:
        self.sh.apply(a)
        h.acc.count('shadow_actions')
    except ShadowError as e:
      mech = 'shadow_rejects:' + reply.stored[0][0] if reply.stored else 'shadow_rejects'
      h.violation('stored_not_applicable', 'stored action cannot be applied by an independent interpreter: %s' % e,
                  {'actions': actions, 'stored': reply.stored[:20]})
      self._resync(h)

  def _resync(self, h):
    raw = h.proc.call('verif_snapshot')
    sch = h.proc.call('verif_schema')['schema']
    types = {t: {c[0]: c[1] for c in cols} for t, cols in sch.items()}
    self.sh.resync(raw, types)
    h.acc.count('shadow_resyncs')

  def compare(self, h, S1, what, ctx=None):
    d = snapshot.diff(S1, self.sh.snapshot())
    h.acc.count('shadow_compares')
    if d:
      mech = 'engine_vs_stored'
      if self.classify and ctx is not None:
        mech = self.classify(ctx, d) or mech
      h.violation(mech, 'engine state differs from replay of stored actions after %s: %s' % (what, d[:3]),
                  {'diff': d, 'bundle': ctx.bundle if ctx else None})
      self._resync(h)
      return False
    return True

  def after_bundle(self, h, ctx):
    if ctx.err is not None and snapshot.diff(ctx.S0, ctx.S1, maxn=1):
      # A failed bundle that left a trace is C04's finding (reported there), not a second one here.
      h.acc.count('attributed_to_C04')
      self._resync(h)
      h.acc.case(None)
      return
    self.compare(h, ctx.S1, 'bundle %s' % action_kinds(ctx.bundle), ctx)
    h.acc.case(nontrivial_hash(ctx), {'bundle': ctx.bundle, 'stored': ctx.reply.stored[:6]} if ctx.reply and ctx.reply.stored else None)


def reference_was_stale(h, Sref, Scur):
  """
  Attribution (DESIGN.md 3.6): Sref is a state the engine computed earlier, Scur the state now, and
  they differ. If they differ only in formula cells (so the data is the same) and a from-scratch
  recalculation of that data disagrees with Sref, the *reference* state was not a fixpoint: the
  comparison is void and the case is C05's finding (incremental != from scratch), not a failure
  to restore.
  """
  from vlib import reload
  kind, d = trace_kind(Sref, Scur)
  if kind != 'formula_cells':
    return False
  try:
    F, _ = reload.scratch_snapshot(h.proc)
  except Exception:      # pylint: disable=broad-except
    return False
  h.acc.count('scratch_recalcs')
  return bool(snapshot.diff(Sref, F, maxn=1))


class UndoRedoMonitor(Monitor):
  """C01 + C03: undo each successful bundle, compare with S0; redo its stored actions, compare with S1."""
  MUTATES = True
  def __init__(self, check_undo=True, check_redo=True, final_unwind=True, classify=None, schema_check=True, aux=False):
    # aux=True: the monitor only exercises undo/redo inside another property's workload; what it
    # sees is counted, not reported (C01/C03 report it from their own workloads).
    self.aux = aux
    self.check_undo = check_undo
    self.check_redo = check_redo
    self.final_unwind = final_unwind
    self.classify = classify
    self.undo_stack = []
    self.S_init = None
    self.diverged = False

  def start(self, h):
    self.S_init = h.snap()

  def _viol(self, h, mech, summary, detail):
    if self.aux:
      h.acc.count('aux_undo_redo_anomalies')
      return
    h.violation(mech, summary, detail)

  def _mech(self, default, ctx, d, Sa=None, Sb=None):
    if self.classify:
      return self.classify(default, ctx, d, Sa, Sb) or default
    return default

  def after_bundle(self, h, ctx):
    acc = h.acc
    if ctx.reply is None:
      return
    r = ctx.reply
    if not r.stored and not r.undo:
      if not self.aux:
        acc.case(None)
      return
    nh = nontrivial_hash(ctx) if not self.aux else None
    ur, err = h.apply([['ApplyUndoActions', json.loads(json.dumps(r.undo))]], 'undo')
    if err is not None:
      self._viol(h, self._mech('undo_raises', ctx, []), 'ApplyUndoActions of a successful bundle raised %s' % err.text,
                  {'bundle': ctx.bundle, 'undo': r.undo[:20]})
      self.diverged = True
      if not self.aux:
        acc.case(nh)
      return
    acc.count('undos')
    S0u = h.snap()
    if self.check_undo:
      d = snapshot.diff(ctx.S0, S0u)
      if d and reference_was_stale(h, ctx.S0, S0u):
        acc.count('prestate_not_a_fixpoint')
        d = None
      if d:
        self._viol(h, self._mech('undo_diff', ctx, d, ctx.S0, S0u), 'state after undo differs from state before bundle %s: %s' % (
            action_kinds(ctx.bundle), d[:3]), {'bundle': ctx.bundle, 'diff': d, 'undo': r.undo[:20]})
    rr, err = h.apply([['ApplyDocActions', json.loads(json.dumps(r.stored))]], 'redo')
    if err is not None:
      self._viol(h, self._mech('redo_raises', ctx, []) if self.check_redo else self._mech('undo_then_redo_raises', ctx, []),
                  're-applying the stored actions after undo raised %s' % err.text,
                  {'bundle': ctx.bundle, 'stored': r.stored[:20]})
      self.diverged = True
      if not self.aux:
        acc.case(nh)
      return
    acc.count('redos')
    S1r = h.snap()
    if self.check_redo:
      d = snapshot.diff(ctx.S1, S1r)
      if d and reference_was_stale(h, ctx.S1, S1r):
        acc.count('poststate_not_a_fixpoint')
        d = None
      if d:
        self._viol(h, self._mech('redo_diff', ctx, d, ctx.S1, S1r), 'state after undo+redo differs from state after bundle %s: %s' % (
            action_kinds(ctx.bundle), d[:3]), {'bundle': ctx.bundle, 'diff': d, 'stored': r.stored[:20]})
    elif snapshot.diff(ctx.S1, S1r):
      self.diverged = True
    self.undo_stack.append(rr.undo)
    if not self.aux:
      acc.case(nh, {'bundle': ctx.bundle, 'undo': r.undo[:6]})

  def end(self, h):
    if not self.final_unwind or self.diverged or not self.check_undo:
      return
    # Undo the whole history bundle by bundle in reverse order.
    for undo in reversed(self.undo_stack):
      ur, err = h.apply([['ApplyUndoActions', json.loads(json.dumps(undo))]], 'unwind')
      if err is not None:
        h.violation('unwind_raises', 'undoing the history in reverse order raised %s' % err.text, {})
        return
    S = h.snap()
    h.acc.count('unwinds')
    d = snapshot.diff(self.S_init, S)
    if d:
      h.violation('unwind_diff', 'undoing the whole history did not return to the starting state: %s' % d[:3],
                  {'diff': d})


class InvariantMonitor(Monitor):
  """C09 / C10 / C11 / C12 / C20(columns) snapshot invariants after successful bundles."""
  def __init__(self, which, classify=None):
    self.which = which
    self.classify = classify

  def after_bundle(self, h, ctx):
    acc = h.acc
    if ctx.reply is None:
      return
    S1 = ctx.S1
    nh = nontrivial_hash(ctx)
    for w in self.which:
      n = 0
      if w == 'C09':
        msgs = invariants.c09(S1)
        n = sum(len(S1[t][0]) for t in S1 if t.startswith('_grist_'))
      elif w == 'C10':
        written = set()
        for a in ctx.reply.stored:
          if a[0] in ('BulkUpdateRecord', 'UpdateRecord') and isinstance(a[3], dict):
            pass
        msgs, n = invariants.c10(ctx.S0, S1)
      elif w == 'C11':
        msgs, n = invariants.c11(S1)
      elif w == 'C12':
        msgs, n = invariants.c12(S1)
      elif w == 'C20':
        msgs, n = invariants.positions_distinct(S1)
      acc.count(w + '.checked', n)
      for mech, msg in msgs[:3]:
        if self.classify:
          mech = self.classify(w, mech, ctx) or mech
        h.violation(mech, '%s after bundle %s' % (msg, action_kinds(ctx.bundle)), {'bundle': ctx.bundle})
    acc.case(nh, {'bundle': ctx.bundle} if nh else None)


# ------------------------------------------------------------------------------------------
from vlib import schema_check


def formula_cols(snap):
  """Set of (table, col) that are formula columns per the metadata of snap."""
  out = set()
  for (t, c), m in invariants.colmeta(snap).items():
    if m['isFormula']:
      out.add((t, c))
  return out


def summary_table_ids(snap):
  out = set()
  if '_grist_Tables' in snap:
    rids, cols = snap['_grist_Tables']
    for tid, src in zip(cols.get('tableId', []), cols.get('summarySourceTable', [])):
      if src:
        out.add(tid)
  return out


def trace_kind(S0, S1):
  """Classify a difference between the state before a failed bundle and after it."""
  d = snapshot.diff(S0, S1, maxn=40)
  if not d:
    return None, d
  fc = formula_cols(S0)
  # Summary tables are derived as a whole: their rows are created and removed by recalculation, so a
  # difference in their row sets or cells is a difference in calculated state, like a formula cell.
  derived = summary_table_ids(S0) & summary_table_ids(S1)
  only_formula = True
  for t in set(S0) | set(S1):
    if t not in S0 or t not in S1:
      only_formula = False
      break
    if t in derived:
      continue
    if S0[t][0] != S1[t][0]:
      only_formula = False
      break
    for c in set(S0[t][1]) | set(S1[t][1]):
      if S0[t][1].get(c) != S1[t][1].get(c) and (t, c) not in fc:
        only_formula = False
  return ('formula_cells' if only_formula else 'data'), d


class SchemaMonitor(Monitor):
  """C08: after every bundle (successful or failed) internal schema == schema rebuilt from metadata."""
  def after_bundle(self, h, ctx):
    vs = h.proc.call('verif_schema')
    msgs = schema_check.check(ctx.S1, vs)
    h.acc.count('schema_checks')
    h.acc.count('schema_checks_after_failure' if ctx.err is not None else 'schema_checks_after_success')
    for mech, msg in msgs[:3]:
      h.violation(mech + (':after_failure' if ctx.err is not None else ''),
                  '%s after %s bundle %s' % (msg, 'failed' if ctx.err is not None else 'successful',
                                             action_kinds(ctx.bundle)), {'bundle': ctx.bundle})
    sh = None
    if ctx.reply is not None and any(a[0] in ('AddTable', 'RemoveTable', 'RenameTable', 'AddColumn', 'RemoveColumn',
                                              'RenameColumn', 'ModifyColumn') for a in ctx.reply.stored):
      sh = shape_hash(action_kinds(ctx.bundle), stored_shape(ctx.reply.stored))
    elif ctx.err is not None:
      sh = shape_hash('fail', action_kinds(ctx.bundle), ctx.err.cls)
    h.acc.case(sh, {'bundle': ctx.bundle, 'failed': ctx.err is not None} if sh else None)


class NoTraceMonitor(Monitor):
  """C04 (natural failures): a bundle that raised leaves no trace and the engine stays usable."""
  MUTATES = True
  def __init__(self, count_cases=True, classify=None):
    # classify(default_mech, Sa, Sb) -> mechanism key of an open finding, or None
    self.count_cases = count_cases
    self.classify = classify

  def check_after_failure(self, h, S0, S1, bundle, how, site=None):
    """Shared no-trace oracle. Returns the snapshot to continue from."""
    acc = h.acc
    acc.count('failures_checked')
    kind, d = trace_kind(S0, S1)
    detail = {'bundle': bundle, 'how': how, 'site': site, 'diff': d[:10]}
    if kind == 'data':
      h.violation('trace:' + how, 'failed bundle %s (%s) left a trace: %s' % (action_kinds(bundle), how, d[:3]), detail)
    vs = h.proc.call('verif_schema')
    for mech, msg in schema_check.check(S1, vs)[:2]:
      h.violation('schema_after_failure:' + mech, '%s after failed bundle %s (%s)' % (msg, action_kinds(bundle), how), detail)
    r, err = h.apply([['Calculate']], 'calc-after-failure')
    if err is not None:
      h.violation('calculate_raises_after_failure', 'Calculate after a failed bundle raised %s' % err.text, detail)
      return h.snap()
    S2 = h.snap()
    if kind == 'formula_cells':
      d2 = snapshot.diff(S0, S2)
      if d2 and reference_was_stale(h, S0, S2):
        # The data is as before the bundle; the formula cells differ because the pre-state itself
        # was not what a recalculation of its data gives (C05's subject, reported there): the
        # rollback recalculated them. The no-trace comparison is void for this case (DESIGN.md 3.6).
        h.acc.count('prestate_not_a_fixpoint')
      elif d2:
        mech = 'trace_formula_persistent:' + how
        if self.classify:
          mech = self.classify('undo_diff', None, d2, S0, S2) or mech
        h.violation(mech, 'formula cells changed by failed bundle %s stay changed after '
                    'Calculate: %s' % (action_kinds(bundle), d2[:3]), dict(detail, diff_after_calculate=d2[:10]))
      else:
        h.violation('formula_values_stale_after_rollback', 'failed bundle %s (%s) left formula cells changed until the '
                    'next Calculate, which reported them as changes: %s' % (action_kinds(bundle), how, d[:3]), detail)
    else:
      if r.stored:
        h.violation('calculate_emits_after_failure', 'Calculate after failed bundle %s emitted %s' % (
            action_kinds(bundle), r.stored[:3]), detail)
      d2 = snapshot.diff(S1, S2)
      if d2 and kind is None:
        h.violation('calculate_changes_after_failure', 'Calculate after failed bundle changed the document: %s' % d2[:3], detail)
    return S2

  def after_bundle(self, h, ctx):
    if ctx.err is None:
      if self.count_cases:
        h.acc.case(None)
      return
    self.check_after_failure(h, ctx.S0, ctx.S1, ctx.bundle, 'natural:' + ctx.err.cls)
    if self.count_cases:
      valid_before = 0
      h.acc.case(shape_hash('natural', action_kinds(ctx.bundle), ctx.err.cls),
                 {'bundle': ctx.bundle, 'error': ctx.err.text[:200]})


class FaultMonitor(Monitor):
  """C04 (injected): enumerate one-shot failpoints over the sub-steps of each bundle."""
  MUTATES = True
  def __init__(self, notrace, max_positions=None, stride_rnd=None, sites=None):
    self.notrace = notrace
    self.max_positions = max_positions
    self.rnd = stride_rnd
    self.sites = sites

  def before_bundle(self, h, bundle, S0):
    acc = h.acc
    k = 0
    total = None
    S = S0
    positions = None
    while True:
      k += 1
      if positions is not None:
        if not positions:
          break
        k = positions.pop(0)
      h.proc.call('verif_arm', self.sites, k)
      wire = json.loads(json.dumps(bundle))
      reply, err = h.proc.try_apply(wire)
      rep = h.proc.call('verif_fault_report')
      h.log.append(['fault#%d' % k, bundle, err is None])
      if rep['fired'] == 'natural-failure' and err is not None:
        # The bundle failed by itself before position k was reached (the failpoint was disarmed
        # when the engine entered its recovery code): this run is the real, naturally failing one.
        rep['fired'] = None
      if rep['fired'] is None:
        # The bundle ran to its natural end without reaching position k: this run is the real
        # application of the bundle and the history continues from it.
        total = rep['count']
        h.log[-1][0] = 'gen'
        if reply is not None:
          for m in h.monitors:
            m.on_reply(h, wire, reply, 'gen')
        acc.count('bundles_enumerated')
        acc.count('positions_total', total)
        return {'S0': S, 'applied': (reply, err)}
      site = rep['fired']
      acc.count('faults_injected')
      acc.seen('fault_sites', site)
      acc.count('site.' + site.split(':')[0])
      if err is None:
        # The exception was swallowed by the engine: the bundle completed although a step failed.
        acc.count('faults_swallowed')
        for m in h.monitors:
          m.on_reply(h, wire, reply, 'fault-swallowed')
        # (Formula evaluation turns exceptions of side-effecting formulas into cell errors: the call
        # does not raise, so C04 does not apply to this run. It counts as the application.)
        acc.seen('swallowed_at', site.split(':')[0])
        return {'S0': S, 'applied': (reply, err)}
      if err.cls != 'InjectedFault':
        acc.count('faults_masked')
        acc.seen('masked_as', err.cls)
      S1 = h.snap()
      S = self.notrace.check_after_failure(h, S, S1, bundle, 'injected', site)
      acc.case(shape_hash('injected', action_kinds(bundle), site, k if k < 6 else 6),
               {'bundle': bundle, 'position': k, 'site': site} if acc.evaluations % 50 == 0 else None)
      if self.max_positions is not None and positions is None and k == 1:
        # Quick tier: after position 1, learn the number of positions from a dry count and sample.
        pass
      if self.max_positions is not None and k >= self.max_positions and positions is None:
        # Long bundle: jump through the remaining positions with a seeded stride.
        step = self.rnd.randint(2, 9) if self.rnd else 5
        positions = []
        nxt = k + step
        for _ in range(self.max_positions):
          positions.append(nxt)
          nxt += self.rnd.randint(2, 9) if self.rnd else 5
    # positions exhausted (sampled enumeration): apply the bundle for real, unarmed.
    return {'S0': S}
