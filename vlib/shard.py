"""Entry point of one shard subprocess: python -m vlib.shard <ID> <spec.json>"""
import sys
import json
import time
import importlib
import traceback


class Acc(object):
  """Accumulator of what a shard actually observed."""
  def __init__(self, pid):
    self.pid = pid
    self.evaluations = 0
    self.hashes = set()
    self.samples = []
    self.counters = {}
    self.sets = {}
    self.violations = []
    self.inconclusive = []

  def count(self, key, n=1):
    self.counters[key] = self.counters.get(key, 0) + n

  def seen(self, key, value):
    self.sets.setdefault(key, set()).add(value)

  def case(self, h=None, sample=None):
    """One evaluated case; h = structural hash if the case is non-trivial by the property's rule."""
    self.evaluations += 1
    if h is not None:
      self.hashes.add(h)
    if sample is not None and len(self.samples) < 2:
      self.samples.append(sample)

  def violation(self, mech, summary, detail=None):
    self.count('violations_raw')
    # Keep at most 3 records per mechanism (and 60 in all), so that a dense known finding cannot
    # crowd out an unlisted violation of another kind; every hit is counted.
    self.count('violations_by_mech.' + str(mech))
    per = sum(1 for v in self.violations if v['mech'] == mech)
    if per < 3 and len(self.violations) < 60:
      self.violations.append({'property': self.pid, 'mech': mech, 'summary': summary,
                              'detail': detail})

  def result(self):
    return {'evaluations': self.evaluations, 'hashes': sorted(self.hashes), 'samples': self.samples,
            'counters': self.counters, 'sets': {k: sorted(v, key=str) for k, v in self.sets.items()},
            'violations': self.violations, 'inconclusive': self.inconclusive}


def main():
  pid, specfile = sys.argv[1], sys.argv[2]
  with open(specfile) as f:
    spec = json.load(f)
  mod = importlib.import_module('props.' + pid)
  acc = Acc(pid)
  t0 = time.time()
  try:
    mod.run_shard(spec, acc)
  except Exception:      # pylint: disable=broad-except
    acc.inconclusive.append('shard %s raised: %s' % (spec.get('shard'), traceback.format_exc()[-2500:]))
  acc.count('shard_wall_ms', int((time.time() - t0) * 1000))
  with open(spec['out'], 'w') as f:
    json.dump(acc.result(), f, default=repr)


if __name__ == '__main__':
  main()
