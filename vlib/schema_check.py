"""
C08 oracle: the engine's internal schema (verif_schema) against a schema rebuilt independently from
the _grist_Tables / _grist_Tables_column rows of a snapshot.
"""
from vlib.snapshot import rows_of


def schema_from_metadata(snap):
  T = rows_of(snap, '_grist_Tables')
  C = rows_of(snap, '_grist_Tables_column')
  colid = {r: c['colId'] for r, c in C.items()}
  out = {}
  for tr, t in T.items():
    cols = [(c['parentPos'], r, c) for r, c in C.items() if c['parentId'] == tr]
    cols.sort(key=lambda x: (x[0] if isinstance(x[0], (int, float)) else 0, x[1]))
    out[t['tableId']] = {c['colId']: [c['type'], bool(c['isFormula']), c['formula'],
                                      colid.get(int(c['reverseCol'])) if c['reverseCol'] else None]
                         for (_, r, c) in cols}
  stray = sorted(r for r, c in C.items() if c['parentId'] not in T)
  return out, stray


def check(snap, vs):
  """vs = reply of verif_schema. Returns list of (mech, message)."""
  msgs = []
  meta, stray = schema_from_metadata(snap)
  for r in stray:
    msgs.append(('stray_column_record', 'column record #%s belongs to a nonexistent table' % r))
  internal = {t: {c[0]: [c[1], bool(c[2]), c[3], c[4]] for c in cols}
              for t, cols in vs['schema'].items() if not t.startswith('_grist_')}
  for t in sorted(set(meta) | set(internal)):
    if t not in internal:
      msgs.append(('table_only_in_metadata', 'table %s is in _grist_Tables but not in the internal schema' % t))
      continue
    if t not in meta:
      msgs.append(('table_only_in_schema', 'table %s is in the internal schema but not in _grist_Tables' % t))
      continue
    a, b = internal[t], meta[t]
    for c in sorted(set(a) | set(b)):
      if c not in a:
        msgs.append(('column_only_in_metadata', '%s.%s only in metadata' % (t, c)))
      elif c not in b:
        msgs.append(('column_only_in_schema', '%s.%s only in the internal schema' % (t, c)))
      elif a[c] != b[c]:
        which = [n for n, x, y in zip(('type', 'isFormula', 'formula', 'reverseColId'), a[c], b[c]) if x != y]
        msgs.append(('column_differs:' + ','.join(which), '%s.%s internal %s vs metadata %s' % (t, c, a[c], b[c])))
  # live column objects and generated classes
  for t, cols in internal.items():
    live = vs['live'].get(t)
    if live is None:
      msgs.append(('no_live_table', 'schema table %s has no live Table object' % t))
    elif sorted(live) != sorted(list(cols) + ['id']) and sorted(live) != sorted(cols):
      msgs.append(('live_columns', '%s live columns %s vs schema %s' % (t, sorted(live), sorted(cols))))
  for t in vs['live']:
    if not t.startswith('_grist_') and t not in internal:
      msgs.append(('live_table_not_in_schema', 'live table %s not in schema' % t))
  if vs.get('usercode') is not None:
    uc = set(vs['usercode'])
    for t in internal:
      if t not in uc:
        msgs.append(('usercode_missing_class', 'generated code has no class %s' % t))
  return msgs
