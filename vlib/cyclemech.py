"""
Mechanism classifier for order-dependent results on dependency cycles (C06; DESIGN.md 3.6).

Two listed mechanisms make the values of cells on (or downstream of) a dependency cycle depend on the
order of evaluation:

  cycle_error_caught_by_formula
      a cycle of same-row `$col` / `rec.col` references one of whose formulas catches the error of its
      operand (IFERROR / ISERROR / try-except): the cell of the cycle that is reached first gets
      CircularRefError, the catching cell evaluated after it gets its fallback value.

  cycle_detection_incremental_vs_scratch
      a cycle that passes through a lookup index (`Table.lookupOne(col=...)`, `lookupRecords(col=...)`,
      order_by / sort_by strings): the index depends on every row of `col`, locks are per cell, so which
      cells end up with CircularRefError depends on which cells are dirty and in which order they are
      reached.

`classify(A, B)` looks at two snapshots of the same document evaluated in different orders and returns
the mechanism key if *every* difference is explained by one of them, else None:
  * same tables, same columns, same metadata; same row ids except in summary tables that group by an
    affected column (their rows, group-by cells and formulas follow the values of that column);
  * every other differing cell is in a formula column (or a data column with a trigger formula);
  * the static reference graph (built from the formula texts) has a strongly connected component that
    qualifies for a mechanism (contains a catching formula / contains a lookup-key or sort-key edge);
  * at least one differing cell lies in a column of such a component and holds CircularRefError on
    exactly one side;
  * every differing column lies in such a component or downstream of it (name-based over-approximation
    of "reads").
A plain `$`-reference cycle without a catching formula and without a lookup edge never qualifies.
"""
import re

from vlib.snapshot import rows_of

CATCH = re.compile(r'IFERROR|ISERROR|ISERR\b|ISNA\b|IFNA\b|\btry\s*:|\bexcept\b')
CELL_REF = re.compile(r'(?:\$|\brec\.)([A-Za-z_][A-Za-z0-9_]*)')
LOOKUP = re.compile(r'\b([A-Za-z_][A-Za-z0-9_]*)\.(lookupOne|lookupRecords)\s*\(')
KEYARG = re.compile(r'\b([A-Za-z_][A-Za-z0-9_]*)\s*=(?!=)')
ATTR = re.compile(r'\.([A-Za-z_][A-Za-z0-9_]*)')
STRING = re.compile(r'''["']-?([A-Za-z_][A-Za-z0-9_]*)["']''')
SKIP_KEYS = ('order_by', 'sort_by', 'group_by', 'match_empty', 'order')


def is_circ(v):
  return isinstance(v, list) and len(v) > 1 and v[0] == 'E' and v[1] == 'CircularRefError'


def columns(S):
  """{(table, col): {'formula':..., 'isFormula':...}} for every column whose table record exists."""
  T = rows_of(S, '_grist_Tables')
  C = rows_of(S, '_grist_Tables_column')
  out = {}
  for c in C.values():
    if c['parentId'] in T:
      out[(T[c['parentId']]['tableId'], c['colId'])] = {'formula': c['formula'] or '', 'isFormula': bool(c['isFormula'])}
  return out


def _call_args(text, start):
  """Text of the parenthesised argument list that starts at text[start] == '('."""
  depth = 0
  for i in range(start, len(text)):
    if text[i] == '(':
      depth += 1
    elif text[i] == ')':
      depth -= 1
      if depth == 0:
        return text[start + 1:i]
  return text[start + 1:]


def graph(cols):
  """edges[(t, c)] = set of ((t2, c2), kind), kind in 'cell' | 'key' | 'attr'."""
  by_name = {}
  for (t, c) in cols:
    by_name.setdefault(c, []).append((t, c))
  edges = {}
  for (t, c), info in cols.items():
    f = info['formula']
    out = set()
    if f:       # formula columns, and data columns with a trigger formula (its reads are dependencies while it runs)
      for name in CELL_REF.findall(f):
        if (t, name) in cols:
          out.add(((t, name), 'cell'))
      for mo in LOOKUP.finditer(f):
        tbl = mo.group(1)
        args = _call_args(f, mo.end() - 1)
        for key in KEYARG.findall(args):
          if key in SKIP_KEYS:
            continue
          if (tbl, key) in cols:
            out.add(((tbl, key), 'key'))
        for name in STRING.findall(args):
          if (tbl, name) in cols:
            out.add(((tbl, name), 'key'))
      for name in STRING.findall(f):        # PREVIOUS / NEXT / RANK(order_by="col", group_by="col"): sorted lookup index
        if (t, name) in cols and re.search(r'\b(PREVIOUS|NEXT|RANK)\s*\(', f):
          out.add(((t, name), 'key'))
      for name in ATTR.findall(f):
        for node in by_name.get(name, ()):
          out.add((node, 'attr'))
    edges[(t, c)] = out
  return edges


def sccs(edges):
  """Strongly connected components with at least one internal edge (Tarjan, iterative enough for small graphs)."""
  index = {}
  low = {}
  stack = []
  on = set()
  out = []
  counter = [0]
  import sys
  sys.setrecursionlimit(max(10000, sys.getrecursionlimit()))
  def visit(v):
    index[v] = low[v] = counter[0]
    counter[0] += 1
    stack.append(v)
    on.add(v)
    for (w, _) in edges.get(v, ()):
      if w not in index:
        visit(w)
        low[v] = min(low[v], low[w])
      elif w in on:
        low[v] = min(low[v], index[w])
    if low[v] == index[v]:
      comp = set()
      while True:
        w = stack.pop()
        on.discard(w)
        comp.add(w)
        if w == v:
          break
      if len(comp) > 1 or any(w == v for (w, _) in edges.get(v, ())):
        out.append(comp)
  for v in list(edges):
    if v not in index:
      visit(v)
  return out


def qualify(comp, edges, cols):
  """Which listed mechanism can make this cycle order-dependent (or None)."""
  internal = [(v, w, kind) for v in comp for (w, kind) in edges.get(v, ()) if w in comp]
  has_key = any(kind == 'key' for (_, _, kind) in internal)
  has_catch = any(CATCH.search(cols[v]['formula']) for v in comp)
  if has_key:
    return 'cycle_detection_incremental_vs_scratch'
  if has_catch:
    return 'cycle_error_caught_by_formula'
  return None


def downstream(seed, edges):
  rev = {}
  for v, outs in edges.items():
    for (w, _) in outs:
      rev.setdefault(w, set()).add(v)
  seen = set(seed)
  todo = list(seed)
  while todo:
    v = todo.pop()
    for u in rev.get(v, ()):
      if u not in seen:
        seen.add(u)
        todo.append(u)
  return seen


def summary_sources(S):
  """{summary table id: set of (source table, source column) it groups by}"""
  T = rows_of(S, '_grist_Tables')
  C = rows_of(S, '_grist_Tables_column')
  out = {}
  for c in C.values():
    sc = c.get('summarySourceCol')
    if sc and sc in C and c['parentId'] in T and C[sc]['parentId'] in T:
      out.setdefault(T[c['parentId']]['tableId'], set()).add((T[C[sc]['parentId']]['tableId'], C[sc]['colId']))
  return out


def classify(A, B):
  if set(A) != set(B):
    return None
  for t in ('_grist_Tables', '_grist_Tables_column'):
    if A.get(t) != B.get(t):
      return None
  cols = columns(A)
  sums = summary_sources(A)
  diffs = []          # differing cells of tables whose row sets agree
  rowdiff = set()     # tables whose row sets differ (only explicable for summary tables grouped by an affected column)
  for t in A:
    if set(A[t][1]) != set(B[t][1]):
      return None
    if A[t][0] != B[t][0]:
      if t not in sums:
        return None
      rowdiff.add(t)
      continue
    for c in A[t][1]:
      if A[t][1][c] != B[t][1][c]:
        for r, x, y in zip(A[t][0], A[t][1][c], B[t][1][c]):
          if x != y:
            diffs.append((t, c, r, x, y))
  if not diffs:
    return None
  edges = graph(cols)
  found = {}
  for comp in sccs(edges):
    mech = qualify(comp, edges, cols)
    if mech:
      found.setdefault(mech, set()).update(comp)
  if not found:
    return None
  # Prefer the mechanism whose cycles hold a differing cell with CircularRefError on exactly one side.
  for mech in ('cycle_detection_incremental_vs_scratch', 'cycle_error_caught_by_formula'):
    comp = found.get(mech)
    if not comp:
      continue
    core = [d for d in diffs if (d[0], d[1]) in comp and is_circ(d[3]) != is_circ(d[4])]
    if not core:
      continue
    # Everything that reads the cycle, and every summary table grouped by something that does (its rows, its
    # group-by cells and all its formulas follow the values of the source column), to a fixpoint.
    reach = downstream(comp, edges)
    affected_tables = set()
    while True:
      new = [st for st, srcs in sums.items() if st not in affected_tables and srcs & reach]
      if not new:
        break
      affected_tables.update(new)
      seed = set(reach)
      for st in new:
        seed.update(k for k in cols if k[0] == st)
      reach = downstream(seed, edges)
    if not rowdiff <= affected_tables:
      continue
    ok = True
    for d in diffs:
      key = (d[0], d[1])
      if d[0] in affected_tables:
        continue
      info = cols.get(key)
      if info is None or not (info['isFormula'] or info['formula']) or key not in reach:
        ok = False
        break
    if ok:
      return mech
  return None
