"""
Lock-step multi-worker driver: the SAME seeded history is sent to K engine processes that differ
only in a configuration the property quantifies over (work-item permutation seed for C06, Python
hash seed for C30).

The seeded generator reads the document model from the snapshot of the *lead* worker (index 0);
every follower receives structurally identical wire actions (fresh objects per send: user actions
mutate their arguments). After every bundle the subclass hook `after_bundle` sees all K replies and
all K snapshots. A history stops at its first divergence (everything later would be judged against
documents that are no longer the same).

Workers are called one after the other (not concurrently): a shard keeps one core busy, so 16
shards use the 16 cores however many workers each of them holds.
"""
import json
import random

from vlib import snapshot, gen_doc
from vlib.client import EngineProc, Watchdog, EngineDied


def canon(v):
  """Structural canonical form for equality of replies: lists stay ordered, dict key order is
  irrelevant, NaN equals NaN, and int / float / bool stay distinct types (1 is not 1.0 here: two
  processes given the same input have no reason to differ even in that)."""
  if v is None or isinstance(v, (bool, str)):
    return v
  if isinstance(v, int):
    return v
  if isinstance(v, float):
    if v != v:
      return ('f', 'nan')
    return ('f', repr(v))
  if isinstance(v, (list, tuple)):
    return [canon(x) for x in v]
  if isinstance(v, dict):
    return ('d', sorted(((repr(k), canon(k), canon(x)) for k, x in v.items()), key=lambda t: t[0]))
  if isinstance(v, bytes):
    return ('b', v.hex())
  return ('r', repr(v))


def first_difference(a, b, path='', depth=0):
  """Human-readable location of the first structural difference of two canon() values (or None)."""
  if a == b:
    return None
  if isinstance(a, list) and isinstance(b, list):
    if len(a) != len(b):
      return '%s: list length %d vs %d' % (path or '.', len(a), len(b))
    for i, (x, y) in enumerate(zip(a, b)):
      if x != y:
        return first_difference(x, y, '%s[%d]' % (path, i), depth + 1)
  if (isinstance(a, tuple) and isinstance(b, tuple) and a and b and a[0] == 'd' and b[0] == 'd'):
    ka = [t[0] for t in a[1]]
    kb = [t[0] for t in b[1]]
    if ka != kb:
      return '%s: dict keys %s vs %s' % (path or '.', _short(ka), _short(kb))
    for (k, _, x), (_, _, y) in zip(a[1], b[1]):
      if x != y:
        return first_difference(x, y, '%s{%s}' % (path, k), depth + 1)
  return '%s: %s vs %s' % (path or '.', _short(a), _short(b))


def _short(v, n=200):
  s = repr(v)
  return s if len(s) <= n else s[:n] + '...'


def cell_writes(stored):
  """Multiset (dict key -> count) of what a list of stored doc actions writes, insensitive to the
  order of the actions and to how cells are grouped into bulk actions: one entry per written cell
  (table, column, row, value), per added / removed row, and per other (schema) action."""
  out = {}
  def add(key):
    k = json.dumps(key, sort_keys=True, default=repr)
    out[k] = out.get(k, 0) + 1
  for a in stored:
    name = a[0]
    if name in ('AddRecord', 'UpdateRecord') and len(a) >= 4 and isinstance(a[3], dict):
      if name == 'AddRecord':
        add(['+row', a[1], a[2]])
      for c, v in a[3].items():
        add(['cell', a[1], c, a[2], snapshot.norm(v)])
    elif name in ('BulkAddRecord', 'BulkUpdateRecord', 'ReplaceTableData') and len(a) >= 4 and isinstance(a[3], dict):
      if name == 'ReplaceTableData':
        add(['replace', a[1]])
      if name != 'BulkUpdateRecord':
        for r in a[2]:
          add(['+row', a[1], r])
      for c, vals in a[3].items():
        for r, v in zip(a[2], vals):
          add(['cell', a[1], c, r, snapshot.norm(v)])
    elif name == 'RemoveRecord':
      add(['-row', a[1], a[2]])
    elif name == 'BulkRemoveRecord':
      for r in a[2]:
        add(['-row', a[1], r])
    else:
      add(['action', snapshot.norm(a)])
  return out


def multiset_diff(a, b, maxn=6):
  msgs = []
  for k in sorted(set(a) | set(b)):
    if a.get(k, 0) != b.get(k, 0):
      msgs.append('%s x%d vs x%d' % (k if len(k) < 240 else k[:240] + '...', a.get(k, 0), b.get(k, 0)))
      if len(msgs) >= maxn:
        break
  return msgs


class MultiHistory(object):
  """
  proc_kws: one dict of EngineProc keyword arguments per worker (index 0 = lead).
  order_seeds: None, or one permutation seed per worker (0 = the engine's own order).
  gen_cls: the generator class (a subclass of gen_doc.Gen may add bundle kinds).
  setup(self): optional, builds the initial document with self.apply_all([...]) calls.
  """
  def __init__(self, acc, seed, proc_kws, steps, weights=None, flags=None, order_seeds=None,
               gen_cls=gen_doc.Gen, setup=None, raw_snapshots=False):
    self.acc = acc
    self.seed = seed
    self.rnd = random.Random(seed)
    self.gen = gen_cls(self.rnd, weights, flags)
    self.proc_kws = proc_kws
    self.K = len(proc_kws)
    self.steps = steps
    self.order_seeds = order_seeds
    self.setup = setup
    self.raw_snapshots = raw_snapshots
    self.procs = []
    self.log = []
    self.step_no = 0
    self.diverged = False

  # ------------------------------------------------------------------ plumbing
  def apply_all(self, actions, tag='gen'):
    """Sends structurally identical fresh copies of `actions` to every worker.
    Returns [(Reply or None, EngineError or None)] in worker order."""
    text = json.dumps(actions)
    out = []
    for p in self.procs:
      out.append(p.try_apply(json.loads(text)))
    self.log.append([tag, actions, [e is None for (_, e) in out]])
    return out

  def call_all(self, name, *args):
    return [p.call(name, *json.loads(json.dumps(list(args)))) for p in self.procs]

  def snap_all(self):
    """[(normalised snapshot, canonical raw snapshot or None)] in worker order."""
    out = []
    for p in self.procs:
      raw = p.call('verif_snapshot')
      S = {t: snapshot.from_table_data(rep) for t, rep in raw.items()}
      out.append((S, canon(raw) if self.raw_snapshots else None))
    return out

  def violation(self, mech, summary, detail=None):
    import os
    d = {'history_seed': self.seed, 'step': self.step_no, 'workers': self.describe_workers(),
         'log_tail': list(self.log) if os.environ.get('VERIF_FULL_LOG') else self.log[-14:]}
    if detail:
      d.update(detail)
    self.acc.violation(mech, summary, d)

  def describe_workers(self):
    return [{'proc': kw, 'order_seed': (self.order_seeds[i] if self.order_seeds else None)}
            for i, kw in enumerate(self.proc_kws)]

  # ------------------------------------------------------------------ hooks for subclasses
  def started(self):
    pass

  def after_bundle(self, step, bundle, results, snaps, S0):
    """results = [(reply, err)], snaps = [(S, rawcanon)]. Return False to stop the history."""
    return True

  def finished(self):
    pass

  # ------------------------------------------------------------------ main loop
  def run(self):
    acc = self.acc
    try:
      for kw in self.proc_kws:
        self.procs.append(EngineProc(**kw))
      for p in self.procs:
        p.call('load_empty')
      res = self.apply_all([['InitNewDoc']], 'init')
      if any(e is not None for (_, e) in res):
        acc.inconclusive.append('InitNewDoc failed')
        return
      if self.order_seeds:
        for p, s in zip(self.procs, self.order_seeds):
          p.call('verif_set_order', s)
      if self.setup:
        self.setup(self)
      self.started()
      snaps = self.snap_all()
      S = snaps[0][0]
      for step in range(self.steps):
        self.step_no = step
        model = gen_doc.Model(S)
        bundle = self.gen.bundle(model)
        results = self.apply_all(bundle, 'gen')
        snaps = self.snap_all()
        acc.count('bundles')
        lead_reply, lead_err = results[0]
        acc.count('bundles_ok' if lead_err is None else 'bundles_failed')
        for a in bundle:
          acc.seen('user_actions', a[0] if isinstance(a, list) and a else '?')
        if lead_reply is not None:
          for a in lead_reply.stored:
            acc.seen('doc_actions', a[0])
        else:
          acc.seen('failure_classes', lead_err.cls)
        go_on = self.after_bundle(step, bundle, results, snaps, S)
        S = snaps[0][0]
        if go_on is False:
          self.diverged = True
          acc.count('histories_stopped_at_divergence')
          break
      self.finished()
      for k, v in self.gen.fgen.shapes.items():
        acc.count('formula_shape.' + k, v)
    except Watchdog as e:
      acc.inconclusive.append('watchdog in history seed %s step %s: %s' % (self.seed, self.step_no, e))
      for p in self.procs:
        p.kill()
    except EngineDied as e:
      self.violation('engine_died', 'engine process died: %s' % e)
      for p in self.procs:
        p.kill()
    finally:
      for p in self.procs:
        try:
          if p.dead:
            p.kill()
          else:
            p.close()
        except Exception:      # pylint: disable=broad-except
          pass
