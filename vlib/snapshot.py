"""
Canonical document snapshots (DESIGN.md 3.2) and their differ.

A snapshot maps table_id -> (sorted row ids, {col_id: [normalised encoded cell values]}).
Normalisation follows the semantics Node has for the values: ints and floats compare numerically,
bool only equals bool, NaN equals NaN, lists compare element-wise.
"""
import math
import json
import hashlib


class _NaN(object):
  def __repr__(self): return 'NaN'
  def __eq__(self, other): return isinstance(other, _NaN)
  def __hash__(self): return 7
NAN = 'NaN#'


def norm(v):
  if v is None or isinstance(v, (bool, str)):
    return v
  if isinstance(v, (int, float)):
    f = float(v)
    if math.isnan(f):
      return NAN
    if isinstance(v, int) and abs(v) > 2**53:
      return v
    return f
  if isinstance(v, (list, tuple)):
    return [norm(x) for x in v]
  if isinstance(v, dict):
    return {k: norm(x) for k, x in v.items()}
  if isinstance(v, bytes):
    return 'bytes#' + v.hex()
  return 'repr#' + repr(v)


def from_table_data(rep):
  """['TableData', table_id, row_ids, columns] -> (row_ids sorted, {col: [values]})"""
  _, tid, row_ids, cols = rep
  order = sorted(range(len(row_ids)), key=lambda i: row_ids[i])
  rows = [row_ids[i] for i in order]
  out = {}
  for c, vals in cols.items():
    out[c] = [norm(vals[i]) for i in order]
  return rows, out


def take(proc):
  raw = proc.call('verif_snapshot')
  return {t: from_table_data(rep) for t, rep in raw.items()}


def diff(a, b, maxn=6, only_tables=None, skip_cols=None):
  """List of human-readable differences between two snapshots (empty = equal)."""
  msgs = []
  for t in sorted(set(a) | set(b)):
    if only_tables is not None and t not in only_tables:
      continue
    if t not in a:
      msgs.append('table %s only in B' % t)
      continue
    if t not in b:
      msgs.append('table %s only in A' % t)
      continue
    ra, ca = a[t]
    rb, cb = b[t]
    if ra != rb:
      msgs.append('%s row ids %s vs %s' % (t, _short(ra), _short(rb)))
      continue
    for c in sorted(set(ca) | set(cb)):
      if skip_cols and (t, c) in skip_cols:
        continue
      if c not in ca:
        msgs.append('%s.%s only in B' % (t, c))
        continue
      if c not in cb:
        msgs.append('%s.%s only in A' % (t, c))
        continue
      if ca[c] != cb[c]:
        for r, x, y in zip(ra, ca[c], cb[c]):
          if x != y:
            msgs.append('%s.%s[%s]: %s vs %s' % (t, c, r, _short(x), _short(y)))
            if len(msgs) >= maxn:
              return msgs
    if len(msgs) >= maxn:
      return msgs
  return msgs


def _short(v, n=160):
  s = json.dumps(v, default=repr, sort_keys=True) if not isinstance(v, str) else repr(v)
  return s if len(s) <= n else s[:n] + '...'


def rows_of(snap, t):
  """{row_id: {col: value}} for one table."""
  rids, cols = snap[t]
  return {r: {c: cols[c][i] for c in cols} for i, r in enumerate(rids)}


def digest(obj):
  return hashlib.sha1(json.dumps(obj, sort_keys=True, default=repr).encode('utf8')).hexdigest()[:16]


def user_tables(snap):
  return [t for t in snap if not t.startswith('_grist_')]


def cells_changed(a, b):
  """Number of cells/rows that differ between two snapshots (cheap non-triviality measure)."""
  n = 0
  for t in set(a) | set(b):
    if t not in a or t not in b:
      n += 1
      continue
    ra, ca = a[t]
    rb, cb = b[t]
    if ra != rb:
      n += len(set(ra) ^ set(rb))
    if ca != cb:
      for c in set(ca) | set(cb):
        if ca.get(c) != cb.get(c):
          n += 1
  return n
