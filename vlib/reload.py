"""
Loading a second engine process from what a live engine reports (C05: data columns only, then
Calculate; C07: everything including stored formula values, the way DocStorage hands it back).
"""
import marshal
from vlib import snapshot
from vlib.client import EngineProc

PRIMS = (type(None), bool, int, float, str)


def db_value(v):
  """An encoded cell value as it comes back from SQLite: primitives as they are, the rest marshalled."""
  if isinstance(v, PRIMS):
    return v
  return marshal.dumps(v)


def db_table(rep):
  _, tid, row_ids, cols = rep
  d = {b'id': list(row_ids)}
  for c, vals in cols.items():
    d[c.encode('utf8')] = [db_value(v) for v in vals]
  return marshal.dumps(d)


def load_from(live, formulas, proc_kw=None, raw=None, order_seed=None):
  """Returns (fresh EngineProc, reply of Calculate). Caller closes the process.
  order_seed: permutation seed of the fresh engine's work-item order (worker hook verif_set_order;
  None / 0 = the engine's own order)."""
  if raw is None:
    raw = live.call('verif_snapshot', formulas)
  fresh = EngineProc(**(proc_kw or {}))
  try:
    if order_seed:
      fresh.call('verif_set_order', order_seed)
    fresh.call('load_meta_tables', db_table(raw['_grist_Tables']), db_table(raw['_grist_Tables_column']))
    for t in sorted(raw):
      if t in ('_grist_Tables', '_grist_Tables_column'):
        continue
      fresh.call('load_table', t, db_table(raw[t]))
    reply = fresh.apply([['Calculate']])
  except Exception:
    fresh.kill()
    raise
  return fresh, reply


def scratch_snapshot(live, proc_kw=None, order_seed=None):
  """Snapshot of a fresh engine that recomputed every formula from the live engine's data columns."""
  fresh, reply = load_from(live, False, proc_kw, order_seed=order_seed)
  try:
    return snapshot.take(fresh), reply
  finally:
    fresh.close()


class ScratchHost(object):
  """
  A worker process that hosts successive *fresh* engine.Engine objects (props.C05_inproc.scratch):
  each call of snapshot() builds a new Engine inside the host, loads it from the live engine's
  metadata and data columns exactly as load_from() does through the exported calls, applies
  Calculate and returns its snapshot. Saves one interpreter start per comparison; the host never
  holds the engine under test. C05 re-checks every difference it sees this way in a real fresh
  process (scratch_snapshot) before judging it.
  """
  def __init__(self, proc_kw=None):
    kw = dict(proc_kw or {})
    kw.setdefault('record', False)
    self.proc = EngineProc(**kw)

  def snapshot(self, live, order_seed=None):
    raw = live.call('verif_snapshot', False)
    payload = {'tables': {t: db_table(rep) for t, rep in raw.items()}}
    self.proc.call('verif_set_order', order_seed or 0)
    out = self.proc.call('verif_py', 'props.C05_inproc', 'scratch', payload)
    return {t: snapshot.from_table_data(rep) for t, rep in out.items()}

  def close(self):
    try:
      self.proc.close()
    except Exception:      # pylint: disable=broad-except
      self.proc.kill()
